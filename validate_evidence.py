#!/usr/bin/env python3
"""Validate /verif/evidence/*.json and MANIFEST.json against the schemas (tooling venv has jsonschema)."""
import json, sys, glob
import jsonschema
ev_schema = json.load(open('/root/.vp/EVIDENCE.schema.json'))
mf_schema = json.load(open('/root/.vp/MANIFEST.schema.json'))
bad = 0
for f in sorted(glob.glob('/verif/evidence/*.json')):
    try:
        jsonschema.validate(json.load(open(f)), ev_schema)
        print('ok ', f)
    except Exception as e:
        bad += 1
        print('BAD', f, str(e).splitlines()[0])
try:
    jsonschema.validate(json.load(open('/verif/MANIFEST.json')), mf_schema)
    print('ok  MANIFEST.json')
except Exception as e:
    bad += 1
    print('BAD MANIFEST.json', str(e).splitlines()[0])
sys.exit(1 if bad else 0)
