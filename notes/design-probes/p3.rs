use vecdb::*;
fn opts<'a>(db: &'a Database, name: &'a str) -> ImportOptions<'a> {
    ImportOptions::new(db, name, Version::TWO).with_saved_stamped_changes(10)
}
fn run<V: StoredVec<I = usize, T = u32>>(label: &str, single: bool) -> Result<()> {
    let t = tempfile::TempDir::new()?;
    let db = Database::open(t.path())?;
    let mut v = V::forced_import_with(opts(&db, "v"))?;
    for i in 0..10 { v.push(i); }
    v.stamped_write_with_changes(Stamp::new(1))?;
    v.truncate_if_needed_at(5)?;
    for i in 0..3 { v.push(100 + i); }
    v.stamped_write_with_changes(Stamp::new(2))?;
    println!("[{label}] S2 = {:?}", v.collect());
    let ro = v.read_only_clone();
    if single { v.rollback()?; } else { v.rollback_before(Stamp::new(2))?; }
    println!("[{label}] after rollback = {:?} stamp {:?} stored_len {} real {}", v.collect(), v.stamp(), v.stored_len(), v.real_stored_len());
    println!("[{label}] read-only clone sees  = {:?}", ro.collect());
    v.push(777);
    let r = v.stamped_write_with_changes(Stamp::new(2));
    println!("[{label}] push+commit after rollback -> {:?}", r.as_ref().err().map(|e| e.to_string()));
    println!("[{label}] contents = {:?}", v.collect());
    let r = v.rollback();
    println!("[{label}] second rollback -> {:?}; contents {:?} stamp {:?}", r.as_ref().err().map(|e| e.to_string()), v.collect(), v.stamp());
    Ok(())
}
fn main() {
    for single in [true, false] {
        println!("=== single rollback() = {single}");
        println!("{:?}", run::<BytesVec<usize, u32>>("bytes", single));
        println!("{:?}", run::<ZeroCopyVec<usize, u32>>("zerocopy", single));
        println!("{:?}", run::<PcoVec<usize, u32>>("pco", single));
        println!("{:?}", run::<LZ4Vec<usize, u32>>("lz4", single));
    }
}
