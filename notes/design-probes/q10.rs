// C10: two concurrent create_region_if_needed at Layout::len()+4096 == file_len.
use rawdb::*;
use std::sync::{Arc, Barrier};
fn main() -> Result<()> {
    let t = tempfile::TempDir::new()?;
    let db = Database::open(t.path())?;
    for i in 0..8 { let r = db.create_region_if_needed(&format!("r{i}"))?; r.write(&vec![i as u8 + 1; 4096 << i])?; }
    db.flush()?;
    println!("layout.len {} file_len {}", db.layout().len(), db.file_len());
    let bar = Arc::new(Barrier::new(2));
    let b2 = bar.clone();
    *PROBE_HOOK.write().unwrap() = Some(Box::new(move |name| { if name == "cr.before_layout_mut" { b2.wait(); } }));
    let hs: Vec<_> = (0..2).map(|k| { let db = db.clone(); std::thread::spawn(move || db.create_region_if_needed(&format!("new{k}")).unwrap()) }).collect();
    let rs: Vec<Region> = hs.into_iter().map(|h| h.join().unwrap()).collect();
    *PROBE_HOOK.write().unwrap() = None;
    for r in &rs { println!("{} start {} reserved {} (file_len {})", r.meta().id(), r.meta().start(), r.meta().reserved(), db.file_len()); }
    for r in &rs {
        let res = std::panic::catch_unwind(std::panic::AssertUnwindSafe(|| r.write(&[1u8; 16])));
        println!("write to {} -> {}", r.meta().id(), match res { Ok(Ok(())) => "ok".to_string(), Ok(Err(e)) => format!("err {e}"), Err(_) => "PANIC".to_string() });
    }
    Ok(())
}
