use vecdb::*;
fn run<V: StoredVec<I = usize, T = u32>>(label: &str) -> Result<()> {
    let t = tempfile::TempDir::new()?;
    let db = Database::open(t.path())?;
    let exit = Exit::new();
    let mut src: BytesVec<usize, u32> = BytesVec::forced_import(&db, "src", Version::ONE)?;
    for x in 0..10u32 { src.push(x); }
    src.write()?;
    {
        let mut out: EagerVec<V> = EagerVec::forced_import(&db, "out", Version::ONE)?;
        out.compute_transform(0, &src, |(i, x, _)| (i, x * 10 + 1), &exit)?;
        out.flush()?; db.flush()?;
        println!("[{label}] v1 results {:?} cv {:?}", out.collect(), out.header().computed_version());
    }
    // new source version, now empty
    let src2: BytesVec<usize, u32> = BytesVec::forced_import(&db, "src2", Version::TWO)?;
    {
        let mut out: EagerVec<V> = EagerVec::forced_import(&db, "out", Version::ONE)?;
        out.compute_transform(0, &src2, |(i, x, _)| (i, x * 10 + 2), &exit)?;
        println!("[{label}] after v2 compute over empty source: len {} cv {:?}", out.len(), out.header().computed_version());
        out.flush()?; db.flush()?;
    }
    {
        let out: EagerVec<V> = EagerVec::forced_import(&db, "out", Version::ONE)?;
        println!("[{label}] re-import: len {} contents {:?} cv {:?}", out.len(), out.collect(), out.header().computed_version());
    }
    Ok(())
}
fn main() { println!("{:?}", run::<BytesVec<usize,u32>>("bytes")); println!("{:?}", run::<PcoVec<usize,u32>>("pco")); println!("{:?}", run::<LZ4Vec<usize,u32>>("lz4")); }
