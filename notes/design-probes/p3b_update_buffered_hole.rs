use vecdb::*;
fn run(write_first: bool) -> Result<()> {
    let t = tempfile::TempDir::new()?;
    let db = Database::open(t.path())?;
    let mut v: BytesVec<usize, u32> = BytesVec::forced_import(&db, "v", Version::TWO)?;
    for i in 0..4 { v.push(i); }
    if write_first { v.write()?; }
    v.delete(2);
    v.update(2, 99)?;
    println!("write_first={write_first}: holes {:?} collect_holed {:?} collect {:?}", v.holes(), v.collect_holed()?, v.collect());
    Ok(())
}
fn main() { run(true).unwrap(); run(false).unwrap(); }
