use rawdb::*;
fn main() -> Result<()> {
    let t = tempfile::TempDir::new()?;
    let db = Database::open_with_min_len(t.path(), 8 << 20)?;
    let a = db.create_region_if_needed("a")?;
    let b = db.create_region_if_needed("b")?;
    a.write(&[0xAA; 4000])?;
    b.write(&[0xBB; 10])?;
    db.flush()?;
    let (tx, rx) = std::sync::mpsc::channel::<()>();
    let (tx2, rx2) = std::sync::mpsc::channel::<()>();
    let a2 = a.clone();
    let h = std::thread::spawn(move || {
        let reader = a2.create_reader();
        println!("reader len {} first {:x}", reader.len(), reader.read(0, 1)[0]);
        tx2.send(()).unwrap();
        rx.recv().unwrap();
        let bytes = reader.read(0, 8);
        println!("reader (held) now reads {:x?}", bytes);
    });
    rx2.recv().unwrap();
    a.write(&[0xAA; 200])?;           // relocates a (b is behind it)
    println!("a start now {}", a.meta().start());
    db.flush()?;                       // promotes old extent
    let c = db.create_region_if_needed("c")?;
    c.write(&[0xCC; 64])?;
    println!("c start {}", c.meta().start());
    tx.send(()).unwrap();
    h.join().unwrap();
    Ok(())
}
