use vecdb::*;
fn main() -> Result<()> {
    let t = tempfile::TempDir::new()?;
    let db = Database::open(t.path())?;
    let exit = Exit::new();
    let mut src: BytesVec<usize, u32> = BytesVec::forced_import(&db, "src", Version::TWO)?;
    for x in [5u32, 0] { src.push(x); }
    src.write()?;
    let mut out: EagerVec<BytesVec<usize, u32>> = EagerVec::forced_import(&db, "out", Version::TWO)?;
    out.compute_all_time_low_(0, &src, &exit, true)?;
    println!("inc step1 {:?}", out.collect());
    src.push(7); src.write()?;
    out.compute_all_time_low_(2, &src, &exit, true)?;
    println!("incremental {:?}", out.collect());
    let mut out2: EagerVec<BytesVec<usize, u32>> = EagerVec::forced_import(&db, "out2", Version::TWO)?;
    out2.compute_all_time_low_(0, &src, &exit, true)?;
    println!("scratch     {:?}", out2.collect());

    // rolling count window 0
    let mut rc: EagerVec<BytesVec<usize, usize>> = EagerVec::forced_import(&db, "rc", Version::TWO)?;
    let r = std::panic::catch_unwind(std::panic::AssertUnwindSafe(|| rc.compute_rolling_count(0, &src, 0, |v| *v > 0, &exit)));
    println!("rolling_count w=0 -> {:?} {:?}", r.is_ok(), rc.collect());
    // compute_sum window 0
    let mut s: EagerVec<BytesVec<usize, u32>> = EagerVec::forced_import(&db, "s", Version::TWO)?;
    let r = std::panic::catch_unwind(std::panic::AssertUnwindSafe(|| s.compute_sum(0, &src, 0, &exit)));
    println!("sum w=0 -> {:?} {:?}", r.map(|r| r.map_err(|e| e.to_string())), s.collect());
    let mut m: EagerVec<BytesVec<usize, u32>> = EagerVec::forced_import(&db, "m", Version::TWO)?;
    let r = std::panic::catch_unwind(std::panic::AssertUnwindSafe(|| m.compute_max(0, &src, 0, &exit)));
    println!("max w=0 -> {:?} {:?}", r.map(|r| r.map_err(|e| e.to_string())), m.collect());
    Ok(())
}
