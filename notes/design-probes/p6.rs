use vecdb::*;
use std::sync::{Arc, atomic::{AtomicBool, AtomicUsize, Ordering}};
fn run<V: StoredVec<I = usize, T = u64> + Send + 'static>(label: &str, batch: usize) where V::ReadOnly: Send + 'static {
    let t = tempfile::TempDir::new().unwrap();
    let db = Database::open(t.path()).unwrap();
    let mut w = V::forced_import(&db, "v", Version::TWO).unwrap();
    let stop = Arc::new(AtomicBool::new(false));
    let bad = Arc::new(AtomicUsize::new(0));
    let reads = Arc::new(AtomicUsize::new(0));
    let mut hs = vec![];
    for _ in 0..6 {
        let ro = w.read_only_clone();
        let stop = stop.clone(); let bad = bad.clone(); let reads = reads.clone();
        hs.push(std::thread::spawn(move || {
            let mut last = 0;
            while !stop.load(Ordering::Relaxed) {
                let r = std::panic::catch_unwind(std::panic::AssertUnwindSafe(|| {
                    let len = ro.len();
                    let from = len.saturating_sub(3000);
                    let vals = ro.collect_range(from, len);
                    (len, from, vals)
                }));
                match r {
                    Ok((len, from, vals)) => {
                        if len < last { bad.fetch_add(1, Ordering::Relaxed); eprintln!("len decreased"); }
                        last = len;
                        if vals.len() != len - from { bad.fetch_add(1, Ordering::Relaxed); eprintln!("short read {} vs {}", vals.len(), len-from); }
                        for (k, v) in vals.iter().enumerate() { if *v != (from + k) as u64 { bad.fetch_add(1, Ordering::Relaxed); eprintln!("mismatch at {} got {}", from+k, v); break; } }
                    }
                    Err(_) => { bad.fetch_add(1, Ordering::Relaxed); }
                }
                reads.fetch_add(1, Ordering::Relaxed);
            }
        }));
    }
    let start = std::time::Instant::now();
    let mut n = 0u64;
    while start.elapsed().as_secs() < 6 && bad.load(Ordering::Relaxed) < 5 {
        for _ in 0..batch { w.push(n); n += 1; }
        w.write().unwrap();
    }
    stop.store(true, Ordering::Relaxed);
    for h in hs { let _ = h.join(); }
    println!("[{label}] batch {batch}: pushed {n}, reads {}, bad {}", reads.load(Ordering::Relaxed), bad.load(Ordering::Relaxed));
}
fn main() {
    std::panic::set_hook(Box::new(|i| { eprintln!("PANIC: {}", i.to_string().lines().next().unwrap_or("")); }));
    run::<PcoVec<usize, u64>>("pco", 700);
    run::<LZ4Vec<usize, u64>>("lz4", 1500);
    run::<BytesVec<usize, u64>>("bytes", 700);
}
