use vecdb::*;
fn main() -> Result<()> {
    let t = tempfile::TempDir::new()?;
    let db = Database::open(t.path())?;
    {
        let mut v: BytesVec<usize, u32> = BytesVec::import(&db, "v", Version::TWO)?;
        for i in 0..10 { v.push(i); }
        v.flush()?; db.flush()?;
        println!("after import: stored header vec_version={:?}", v.header().vec_version());
    }
    {
        let v: BytesVec<usize, u32> = BytesVec::forced_import(&db, "v", Version::TWO)?;
        println!("forced_import same version -> len {} header {:?}", v.len(), v.header().vec_version());
    }
    {
        let r: Result<BytesVec<usize, u32>> = BytesVec::import(&db, "v", Version::TWO);
        println!("import after forced -> {:?}", r.as_ref().map(|v| v.len()).map_err(|e| e.to_string()));
    }
    // pco
    {
        let mut v: PcoVec<usize, u32> = PcoVec::forced_import(&db, "w", Version::TWO)?;
        for i in 0..10 { v.push(i); }
        v.flush()?; db.flush()?;
    }
    {
        let r: Result<PcoVec<usize, u32>> = PcoVec::import(&db, "w", Version::TWO);
        println!("pco import after forced -> {:?}", r.as_ref().map(|v| v.len()).map_err(|e| e.to_string()));
    }
    Ok(())
}
