use rawdb::*;
fn main() -> Result<()> {
    let t = tempfile::TempDir::new()?;
    let db = Database::open(t.path())?;
    let a = db.create_region_if_needed("a")?;
    let b = db.create_region_if_needed("b")?;
    a.write(&[1u8; 100])?; b.write(&[2u8; 100])?;
    db.flush()?;
    eprintln!("MARK remove a");
    a.remove()?;
    eprintln!("MARK flush (nothing dirty)");
    let n = db.flush()?;
    eprintln!("MARK flush returned {n}; holes now {:?}", db.layout().start_to_hole());
    let c = db.create_region_if_needed("c")?;
    eprintln!("MARK c created at {} (a's old extent) ", c.meta().start());
    c.write(&[3u8; 50])?;
    eprintln!("MARK c written; crash here => durable regions file still has a's slot, c's slot may be written back");
    Ok(())
}
