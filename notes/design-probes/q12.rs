// C12: writer extends into reserve; compact() runs between the copy and the len update.
use rawdb::*;
use std::sync::{Arc, Mutex, Condvar};
fn main() -> Result<()> {
    let t = tempfile::TempDir::new()?;
    let db = Database::open(t.path())?;
    let a = db.create_region_if_needed("a")?;
    let b = db.create_region_if_needed("b")?;   // keeps `a` from being the last region
    b.write(&[9u8; 10])?;
    a.write(&vec![7u8; 5000])?;                  // a relocates; reserved 8192
    a.truncate(100)?;
    db.flush()?;
    println!("a: start {} len {} reserved {}", a.meta().start(), a.meta().len(), a.meta().reserved());
    let gate = Arc::new((Mutex::new(0u8), Condvar::new())); // 0 idle, 1 writer parked, 2 release
    let g2 = gate.clone();
    *PROBE_HOOK.write().unwrap() = Some(Box::new(move |name| {
        if name == "w.after_copy" && std::thread::current().name() == Some("writer") {
            let (m, cv) = &*g2; let mut s = m.lock().unwrap(); *s = 1; cv.notify_all();
            while *s != 2 { s = cv.wait(s).unwrap(); }
        }
    }));
    let a2 = a.clone();
    let h = std::thread::Builder::new().name("writer".into()).spawn(move || a2.write(&vec![0xEEu8; 5000]).unwrap()).unwrap();
    { let (m, cv) = &*gate; let mut s = m.lock().unwrap(); while *s != 1 { s = cv.wait(s).unwrap(); } }
    db.compact()?;                                // runs while the writer sits between copy and set_len
    { let (m, cv) = &*gate; *m.lock().unwrap() = 2; cv.notify_all(); }
    h.join().unwrap();
    let r = a.create_reader(); let bytes = r.read_all();
    let zeros = bytes[100..].iter().filter(|&&x| x == 0).count();
    println!("a len {} ; bytes[100..] that are zero instead of 0xEE: {} (first zero at {:?})", bytes.len(), zeros, bytes.iter().position(|&x| x == 0));
    Ok(())
}
