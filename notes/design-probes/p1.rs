use rawdb::*;
fn main() -> Result<()> {
    let t = tempfile::TempDir::new()?;
    let db = Database::open(t.path())?;
    let a = db.create_region_if_needed("a")?;
    let b = db.create_region_if_needed("b")?;
    a.write(&[1u8; 100])?;
    b.write(&[2u8; 100])?;
    db.flush()?;
    let extra = a.clone();
    let r = a.remove();
    println!("remove with extra ref -> {:?}", r.as_ref().err().map(|e| e.to_string()));
    println!("layout regions: {:?}", db.layout().start_to_region().keys().collect::<Vec<_>>());
    println!("get_region(a) present: {}", db.get_region("a").is_some());
    // continuation
    db.flush()?;
    println!("holes after flush: {:?}", db.layout().start_to_hole());
    let c = db.create_region_if_needed("c")?;
    c.write(&[3u8; 50])?;
    println!("c start {} ; a start {}", c.meta().start(), extra.meta().start());
    println!("a bytes now: {:?}", &extra.create_reader().read_all()[..4]);
    Ok(())
}
