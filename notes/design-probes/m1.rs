fn main() {
    let t = tempfile::TempDir::new().unwrap();
    let db = rawdb::Database::open(t.path());
    println!("{:?}", db.as_ref().err().map(|e| e.to_string()));
    // pure codec works:
    let r = rawdb::RegionMetadata::from_bytes(&[0u8; 4096]);
    println!("{:?}", r.err().map(|e| e.to_string()));
}
