use vecdb::*;
use std::fs;
fn main() -> Result<()> {
    let t = tempfile::TempDir::new()?;
    let db = Database::open(t.path())?;
    let o = ImportOptions::new(&db, "v", Version::TWO).with_saved_stamped_changes(2);
    let mut v: BytesVec<usize, u32> = BytesVec::forced_import_with(o)?;
    for s in 1..=5u64 { v.push(s as u32); v.stamped_write_with_changes(Stamp::new(s))?; }
    let dir = t.path().join("changes").join("v/usize");
    let mut names: Vec<_> = fs::read_dir(&dir)?.map(|e| e.unwrap().file_name().into_string().unwrap()).collect(); names.sort();
    println!("retention 2 after 5 commits: files {:?}", names);
    let mut n = 0; while v.rollback().is_ok() { n += 1; println!("  rollback {n}: {:?} stamp {:?}", v.collect(), v.stamp()); if n > 6 {break;} }
    println!("rollbacks possible: {n}");
    // malformed: huge prev_stored_len
    let o = ImportOptions::new(&db, "w", Version::TWO).with_saved_stamped_changes(5);
    let mut w: BytesVec<usize, u32> = BytesVec::forced_import_with(o)?;
    for s in 1..=2u64 { w.push(s as u32); w.stamped_write_with_changes(Stamp::new(s))?; }
    let f = t.path().join("changes").join("w/usize").join("2");
    let mut b = fs::read(&f)?;
    println!("record len {}", b.len());
    b[8..16].copy_from_slice(&(1u64<<40).to_le_bytes()); // prev_stored_len
    fs::write(&f, &b)?;
    let r = w.rollback();
    println!("rollback with huge prev_stored_len -> {:?}; len {} stored_len {}", r.map_err(|e| e.to_string()), w.len(), w.stored_len());
    Ok(())
}
