// C11: Region::flush (meta R -> file R) vs punch_holes (file R -> meta W) vs set_min_len (file W queued)
use rawdb::*;
use std::sync::{Arc, Mutex, Condvar, atomic::{AtomicUsize, Ordering}};
use std::time::Duration;
fn main() -> Result<()> {
    let t = tempfile::TempDir::new()?;
    let db = Database::open(t.path())?;
    let a = db.create_region_if_needed("a")?;
    a.write(&vec![7u8; 5000])?;  // reserved 8192, tail punchable
    a.truncate(100)?;
    db.flush()?;
    a.write(&[1u8; 10])?;        // dirty again so Region::flush reaches the file sync
    let st = Arc::new((Mutex::new([0u8; 2]), Condvar::new())); // [A parked?, B parked?]; value 2 = released
    let s2 = st.clone();
    *PROBE_HOOK.write().unwrap() = Some(Box::new(move |name| {
        let idx = match (name, std::thread::current().name()) { ("rf.before_file", Some("A")) => 0, ("ph.after_file", Some("B")) => 1, _ => return };
        let (m, cv) = &*s2; let mut s = m.lock().unwrap(); s[idx] = 1; cv.notify_all();
        while s[idx] != 2 { s = cv.wait(s).unwrap(); }
    }));
    let done = Arc::new(AtomicUsize::new(0));
    let spawn = |name: &str, f: Box<dyn FnOnce() + Send>| { let d = done.clone(); std::thread::Builder::new().name(name.into()).spawn(move || { f(); d.fetch_add(1, Ordering::SeqCst); }).unwrap() };
    let wait_parked = |i: usize| { let (m, cv) = &*st; let mut s = m.lock().unwrap(); while s[i] != 1 { s = cv.wait(s).unwrap(); } };
    let release = |i: usize| { let (m, cv) = &*st; m.lock().unwrap()[i] = 2; cv.notify_all(); };
    let a2 = a.clone(); let _ta = spawn("A", Box::new(move || { a2.flush().unwrap(); }));
    wait_parked(0);                         // A holds regions(R) + meta_a(R)
    let db2 = db.clone(); let _tb = spawn("B", Box::new(move || { db2.compact().unwrap(); }));
    wait_parked(1);                         // B holds layout(R) + file(R)
    release(1);                             // B goes on to meta_a(W): blocks behind A's meta(R)
    std::thread::sleep(Duration::from_millis(300));
    let db3 = db.clone(); let _tc = spawn("C", Box::new(move || { db3.set_min_len(64 << 20).unwrap(); }));
    std::thread::sleep(Duration::from_millis(300)); // C holds mmap(W), queues for file(W) behind B's file(R)
    release(0);                             // A asks for file(R): behind the queued writer
    std::thread::sleep(Duration::from_secs(3));
    println!("threads finished after 3 s: {} of 3  => {}", done.load(Ordering::SeqCst), if done.load(Ordering::SeqCst) == 0 { "DEADLOCK" } else { "no deadlock" });
    std::process::exit(0);
}
