//! E-SCHED: a controlled scheduler for real library code.
//!
//! Managed threads stop at every acquisition of a tapped lock, every named point, at thread
//! start and before joining background threads. Exactly one managed thread runs at a time; the
//! controller keeps a model of every tapped lock (holders, queued writers) and decides which
//! stopped threads are *enabled* under parking_lot's writer-preferring policy (a queued writer
//! blocks new readers). A granted acquisition is performed with `try_lock` on the real lock, so
//! the real lock never blocks and schedules are reproducible. "Unfinished threads and none
//! enabled" is a modelled deadlock; it is confirmed by releasing the same threads into the real
//! blocking locks in a child process (see `c_sched.rs`).

use std::{
    collections::{BTreeMap, HashMap},
    sync::{Arc, Condvar, Mutex},
    thread::ThreadId,
    time::{Duration, Instant},
};

use rawdb::verif::{Event, LockClass, Mode, lock_info};

use crate::{
    common::{Rng, catch},
    obs,
};

#[derive(Debug, Clone, PartialEq)]
pub enum Status {
    Running,
    /// parked at a named point / thread start (always enabled)
    AtPoint(String),
    /// wants a tapped lock
    Wants(usize, Mode),
    /// waits for all background threads to end
    Joining,
    Finished,
}

#[derive(Default, Debug, Clone)]
struct LockState {
    readers: Vec<usize>,
    writer: Option<usize>,
    queued_writers: Vec<usize>,
}

#[derive(Debug, Clone)]
pub struct Step {
    pub enabled: Vec<usize>,
    pub chosen: usize,
    pub preempt: bool,
    pub what: String,
}

#[derive(Debug, Clone)]
pub struct Deadlock {
    /// (thread name, what it waits for, held locks)
    pub waits: Vec<(String, String, Vec<String>)>,
    pub signature: String,
}

#[derive(Debug, Clone)]
pub enum RunEnd {
    Completed,
    Deadlock(Deadlock),
    Stuck(String),
}

struct TState {
    name: String,
    /// last named point this thread stopped at
    last_stop: String,
    /// the thread has taken a region-metadata write lock after the `*:after_copy` point of a
    /// write path (that is where a writer publishes its new length)
    took_meta_w: bool,
    status: Status,
    is_bg: bool,
    held: Vec<(usize, Mode)>,
    panic: Option<String>,
}

struct Inner {
    threads: Vec<TState>,
    by_os: HashMap<ThreadId, usize>,
    current: Option<usize>,
    last_run: Option<usize>,
    locks: HashMap<usize, LockState>,
    spawned: usize,
    started: usize,
    free_run: bool,
    abort: bool,
    progress: u64,
    /// lock-order edges (held class, mode) -> (wanted class, mode), with an example thread name
    edges: BTreeMap<String, std::collections::BTreeSet<String>>,
    /// hole punches observed: (offset, length, state of every managed thread at that moment)
    punches: Vec<PunchRec>,
}

#[derive(Debug, Clone)]
pub struct PunchRec {
    pub off: usize,
    pub len: usize,
    /// (thread name, "finished" | last named point it stopped at)
    pub threads: Vec<(String, String)>,
}

pub struct Sched {
    inner: Mutex<Inner>,
    cv: Condvar,
}

pub fn class_name(addr: usize) -> String {
    match lock_info(addr) {
        Some((c, _)) => format!("{c:?}").to_lowercase(),
        None => "other".into(),
    }
}

fn mode_s(m: Mode) -> &'static str {
    match m {
        Mode::Shared => "R",
        Mode::Exclusive => "W",
    }
}

impl Inner {
    fn acquirable(&self, t: usize, addr: usize, mode: Mode) -> bool {
        let Some(ls) = self.locks.get(&addr) else { return true };
        match mode {
            Mode::Exclusive => ls.writer.is_none() && ls.readers.is_empty(),
            Mode::Shared => ls.writer.is_none() && !ls.queued_writers.iter().any(|&w| w != t),
        }
    }

    fn enabled(&self) -> Vec<usize> {
        let bg_alive = self.threads.iter().any(|t| t.is_bg && t.status != Status::Finished);
        self.threads
            .iter()
            .enumerate()
            .filter(|(i, t)| match &t.status {
                Status::AtPoint(_) => true,
                // a writer that cannot get the lock yet can still make a step: calling lock()
                // and queueing up, which from then on blocks new readers (writer preference)
                Status::Wants(a, m) => self.acquirable(*i, *a, *m) || (*m == Mode::Exclusive && !self.locks.get(a).is_some_and(|ls| ls.queued_writers.contains(i))),
                Status::Joining => !bg_alive,
                _ => false,
            })
            .map(|(i, _)| i)
            .collect()
    }

    fn describe(&self, t: usize) -> String {
        match &self.threads[t].status {
            Status::AtPoint(p) => format!("point {p}"),
            Status::Wants(a, m) => format!("{}({})", class_name(*a), mode_s(*m)),
            Status::Joining => "join background threads".into(),
            Status::Running => "running".into(),
            Status::Finished => "finished".into(),
        }
    }
}

impl Sched {
    pub fn new() -> Arc<Self> {
        Arc::new(Self {
            inner: Mutex::new(Inner {
                threads: vec![],
                by_os: HashMap::new(),
                current: None,
                last_run: None,
                locks: HashMap::new(),
                spawned: 0,
                started: 0,
                free_run: false,
                abort: false,
                progress: 0,
                edges: BTreeMap::new(),
                punches: vec![],
            }),
            cv: Condvar::new(),
        })
    }

    fn me(&self) -> Option<usize> {
        let g = self.inner.lock().unwrap();
        g.by_os.get(&std::thread::current().id()).copied()
    }

    fn register(&self, name: &str, is_bg: bool) -> usize {
        let mut g = self.inner.lock().unwrap();
        let id = g.threads.len();
        g.threads.push(TState { name: name.to_string(), last_stop: String::new(), took_meta_w: false, status: Status::Running, is_bg, held: vec![], panic: None });
        g.by_os.insert(std::thread::current().id(), id);
        id
    }

    /// Parks the calling managed thread with `status` until the controller schedules it.
    /// Returns false when the run was aborted (the caller must unwind).
    fn park(&self, me: usize, status: Status) -> bool {
        let mut g = self.inner.lock().unwrap();
        if g.free_run {
            return true;
        }
        if let Status::AtPoint(p) = &status
            && !p.starts_with("released ")
        {
            g.threads[me].last_stop = p.clone();
        }
        g.threads[me].status = status;
        if g.current == Some(me) {
            g.current = None;
        }
        self.cv.notify_all();
        while g.current != Some(me) && !g.abort && !g.free_run {
            g = self.cv.wait(g).unwrap();
        }
        if g.abort {
            return false;
        }
        g.threads[me].status = Status::Running;
        true
    }

    /// Aborted run: managed foreground threads unwind out of the library (their guards are
    /// released on the way); background threads and threads that are already unwinding just
    /// continue against the real locks.
    fn unwind(&self, me: usize) {
        let is_bg = self.inner.lock().unwrap().threads[me].is_bg;
        if !is_bg && !std::thread::panicking() {
            panic!("sched-abort");
        }
    }

    fn finish(&self, me: usize, panic: Option<String>) {
        let mut g = self.inner.lock().unwrap();
        g.threads[me].status = Status::Finished;
        g.threads[me].panic = panic;
        if g.current == Some(me) {
            g.current = None;
        }
        g.progress += 1;
        self.cv.notify_all();
    }
}

struct Hook(Arc<Sched>);

impl obs::Global for Hook {
    fn event(&self, e: &Event<'_>) {
        let s = &self.0;
        match e {
            Event::Point { name } => {
                if let Some(me) = s.me()
                    && !s.park(me, Status::AtPoint(name.to_string()))
                {
                    s.unwind(me);
                }
            }
            Event::Punch { off, len } => {
                let mut g = s.inner.lock().unwrap();
                let threads = g.threads.iter().map(|t| (t.name.clone(), if t.status == Status::Finished { "finished".to_string() } else if t.took_meta_w { "published".to_string() } else { format!("unpublished@{}", t.last_stop) })).collect();
                g.punches.push(PunchRec { off: *off, len: *len, threads });
            }
            Event::Spawn => {
                if s.me().is_some() {
                    s.inner.lock().unwrap().spawned += 1;
                    s.cv.notify_all();
                }
            }
            Event::ThreadStart => {
                // a background thread of the library becomes a managed thread (registration and
                // the `started` count change together, or the controller could act in between)
                let me = {
                    let mut g = s.inner.lock().unwrap();
                    let n = g.threads.iter().filter(|t| t.is_bg).count();
                    let id = g.threads.len();
                    g.threads.push(TState { name: format!("bg{n}"), last_stop: String::new(), took_meta_w: false, status: Status::Running, is_bg: true, held: vec![], panic: None });
                    g.by_os.insert(std::thread::current().id(), id);
                    g.started += 1;
                    id
                };
                let _ = s.park(me, Status::AtPoint("bg:start".into()));
            }
            Event::ThreadEnd => {
                if let Some(me) = s.me() {
                    s.finish(me, None);
                }
            }
            Event::JoinPre { pending } => {
                if *pending > 0
                    && let Some(me) = s.me()
                    && !s.park(me, Status::Joining)
                {
                    s.unwind(me);
                }
            }
            _ => {}
        }
    }

    fn lock_pre(&self, addr: usize, mode: Mode) -> bool {
        let s = &self.0;
        let Some(me) = s.me() else { return false };
        loop {
            if !s.park(me, Status::Wants(addr, mode)) {
                s.unwind(me);
                return false; // not unwinding (background thread / already panicking): real lock
            }
            let g = s.inner.lock().unwrap();
            if g.free_run {
                return false; // released into the real blocking lock
            }
            if g.acquirable(me, addr, mode) {
                return true;
            }
            // not enabled after all (state changed between the grant and now): park again
        }
    }

    fn lock_failed(&self, _addr: usize, _mode: Mode) {
        // the model granted a lock the real try_lock refused (held by an unmanaged thread):
        // give the holder time and ask again through lock_pre
        std::thread::sleep(Duration::from_micros(200));
    }

    fn lock_acquired(&self, addr: usize, mode: Mode) {
        let s = &self.0;
        let Some(me) = s.me() else { return };
        let mut g = s.inner.lock().unwrap();
        g.progress += 1;
        // lock-order edges
        let held: Vec<(usize, Mode)> = g.threads[me].held.clone();
        for (h, hm) in held {
            let same = lock_info(h).map(|x| x.0) == lock_info(addr).map(|x| x.0) && h != addr;
            let k = format!("{}({}) -> {}({}){}", class_name(h), mode_s(hm), class_name(addr), mode_s(mode), if same { " [other instance]" } else { "" });
            let name = g.threads[me].name.split('#').next().unwrap_or("").to_string();
            g.edges.entry(k).or_default().insert(name);
        }
        let name = g.threads[me].name.split('#').next().unwrap_or("").to_string();
        g.edges.entry(format!("acq:{}({})", class_name(addr), mode_s(mode))).or_default().insert(name);
        let ls = g.locks.entry(addr).or_default();
        ls.queued_writers.retain(|&w| w != me);
        match mode {
            Mode::Shared => ls.readers.push(me),
            Mode::Exclusive => ls.writer = Some(me),
        }
        g.threads[me].held.push((addr, mode));
        // "published": a metadata write lock taken after the data copy of a write path
        if mode == Mode::Exclusive && class_name(addr) == "meta" && g.threads[me].last_stop.ends_with(":after_copy") {
            g.threads[me].took_meta_w = true;
        }
    }

    fn lock_released(&self, addr: usize, mode: Mode) {
        let s = &self.0;
        let Some(me) = s.me() else { return };
        let mut g = s.inner.lock().unwrap();
        let ls = g.locks.entry(addr).or_default();
        match mode {
            Mode::Shared => {
                if let Some(p) = ls.readers.iter().position(|&r| r == me) {
                    ls.readers.remove(p);
                }
            }
            Mode::Exclusive => {
                if ls.writer == Some(me) {
                    ls.writer = None;
                }
            }
        }
        if let Some(p) = g.threads[me].held.iter().rposition(|&(a, m)| a == addr && m == mode) {
            g.threads[me].held.remove(p);
        }
        drop(g);
        // releasing a lock is a scheduling point too: what a thread does between a release and its
        // next acquisition (loading a shared length, say) can then be separated from what came before
        if !std::thread::panicking() {
            let _ = s.park(me, Status::AtPoint(format!("released {}({})", class_name(addr), mode_s(mode))));
        }
    }
}

pub enum Policy {
    /// follow the forced choices, then continue the running thread while it is enabled
    /// (non-preemptive), else the lowest enabled thread
    Prefix(Vec<usize>),
    /// same, but the highest enabled thread is the default (the enumeration then starts from
    /// the opposite end of the schedule tree)
    PrefixHigh(Vec<usize>),
    /// random choices; `stay` in 0..=100 is the probability (percent) of not switching
    Random { seed: u64, stay: u32 },
    /// directed: for each (thread, wanted class, wanted mode, class it must hold) in turn, run
    /// that thread until it asks for that lock while holding the other (or cannot continue);
    /// afterwards the lowest enabled thread runs
    Guided(Vec<(usize, String, Mode, Option<String>)>),
}

pub struct RunResult {
    pub end: RunEnd,
    pub steps: Vec<Step>,
    pub panics: Vec<(String, String)>,
    pub edges: BTreeMap<String, std::collections::BTreeSet<String>>,
    pub thread_names: Vec<String>,
    pub punches: Vec<PunchRec>,
}

pub type Job = Box<dyn FnOnce() + Send + 'static>;

/// What to do when a modelled deadlock is reached.
#[derive(Clone, Copy, PartialEq)]
pub enum OnDeadlock {
    /// unwind all threads (normal exploration)
    Abort,
    /// release the blocked threads into the real blocking locks and watch them (confirmation;
    /// the process must exit afterwards)
    ReleaseAndWatch,
}

/// Runs `jobs` (one managed thread each) under `policy`.
pub fn run(jobs: Vec<(String, Job)>, policy: Policy, on_deadlock: OnDeadlock, max_steps: usize) -> RunResult {
    let sched = Sched::new();
    obs::set_global(Some(Arc::new(Hook(sched.clone()))));
    let n = jobs.len();
    let mut handles = vec![];
    // registration must be complete before the first decision
    let ready = Arc::new((Mutex::new(0usize), Condvar::new()));
    for (i, (name, job)) in jobs.into_iter().enumerate() {
        let s = sched.clone();
        let ready = ready.clone();
        let h = std::thread::Builder::new()
            .name(name.clone())
            .stack_size(8 << 20)
            .spawn(move || {
                // deterministic ids: wait for our turn to register
                {
                    let (m, cv) = &*ready;
                    let mut g = m.lock().unwrap();
                    while *g != i {
                        g = cv.wait(g).unwrap();
                    }
                    let me = s.register(&name, false);
                    debug_assert_eq!(me, i);
                    *g += 1;
                    cv.notify_all();
                }
                let me = i;
                if !s.park(me, Status::AtPoint("start".into())) {
                    s.finish(me, None);
                    return;
                }
                let r = catch(job);
                let p = match r {
                    Ok(()) => None,
                    Err(p) if p.starts_with("sched-abort") => None,
                    Err(p) => Some(p),
                };
                s.finish(me, p);
            })
            .expect("spawn managed thread");
        handles.push(h);
    }
    {
        let (m, cv) = &*ready;
        let mut g = m.lock().unwrap();
        while *g != n {
            g = cv.wait(g).unwrap();
        }
    }

    let t_dbg = Instant::now();
    let dbg = std::env::var("VERIF_DEBUG_SCHED").is_ok();
    let mut steps: Vec<Step> = vec![];
    let mut rng = match &policy {
        Policy::Random { seed, .. } => Rng::new(*seed),
        _ => Rng::new(1),
    };
    let end;
    let mut guided_phase = 0usize;
    loop {
        // wait until every managed thread is parked or finished
        let mut g = sched.inner.lock().unwrap();
        let deadline = Instant::now() + Duration::from_secs(20);
        let mut stuck = false;
        while g.current.is_some() || g.spawned > g.started || g.threads.iter().any(|t| t.status == Status::Running) {
            let (ng, to) = sched.cv.wait_timeout(g, Duration::from_millis(200)).unwrap();
            g = ng;
            if to.timed_out() && Instant::now() > deadline {
                stuck = true;
                break;
            }
        }
        if stuck {
            let who: Vec<String> = g.threads.iter().filter(|t| t.status == Status::Running).map(|t| t.name.clone()).collect();
            end = RunEnd::Stuck(format!("threads {who:?} did not reach a scheduling point within 20 s"));
            g.abort = true;
            sched.cv.notify_all();
            break;
        }
        if g.threads.iter().all(|t| t.status == Status::Finished) {
            end = RunEnd::Completed;
            break;
        }
        let enabled = g.enabled();
        if enabled.is_empty() {
            // modelled deadlock
            let mut waits = vec![];
            let mut sig_parts = vec![];
            for (i, t) in g.threads.iter().enumerate() {
                if t.status == Status::Finished {
                    continue;
                }
                let held: Vec<String> = t.held.iter().map(|(a, m)| format!("{}({})", class_name(*a), mode_s(*m))).collect();
                waits.push((t.name.clone(), g.describe(i), held.clone()));
                let mut hs = held.clone();
                hs.sort();
                hs.dedup();
                sig_parts.push(format!("{}:[{}]->{}", t.name.split('#').next().unwrap_or(&t.name), hs.join(","), g.describe(i)));
            }
            sig_parts.sort();
            let dl = Deadlock { waits, signature: sig_parts.join(" ; ") };
            if on_deadlock == OnDeadlock::ReleaseAndWatch {
                // holders keep what they hold; queued writers enter the real lock first, the
                // readers behind them afterwards
                let before = g.progress;
                let writers: Vec<usize> = g.threads.iter().enumerate().filter(|(_, t)| matches!(t.status, Status::Wants(_, Mode::Exclusive))).map(|(i, _)| i).collect();
                g.free_run = true;
                drop(g);
                let _ = writers;
                sched.cv.notify_all();
                std::thread::sleep(Duration::from_millis(3000));
                let g = sched.inner.lock().unwrap();
                let moved = g.progress != before;
                println!("CONFIRM progress_after_release={} unfinished={}", moved, g.threads.iter().filter(|t| t.status != Status::Finished).count());
                return RunResult { end: if moved { RunEnd::Completed } else { RunEnd::Deadlock(dl) }, steps, panics: vec![], edges: g.edges.clone(), thread_names: g.threads.iter().map(|t| t.name.clone()).collect(), punches: g.punches.clone() };
            }
            end = RunEnd::Deadlock(dl);
            g.abort = true;
            sched.cv.notify_all();
            break;
        }
        if steps.len() >= max_steps {
            end = RunEnd::Stuck(format!("more than {max_steps} scheduling steps"));
            g.abort = true;
            sched.cv.notify_all();
            break;
        }
        let last = g.last_run;
        let last_enabled = last.is_some_and(|l| enabled.contains(&l));
        let k = steps.len();
        let chosen = match &policy {
            Policy::Guided(targets) => {
                let mut pick = None;
                while guided_phase < targets.len() {
                    let (t, class, mode, held) = &targets[guided_phase];
                    let at_target = match g.threads.get(*t).map(|x| &x.status) {
                        Some(Status::Wants(a, m)) => class_name(*a) == *class && m == mode && held.as_ref().is_none_or(|h| g.threads[*t].held.iter().any(|(ha, _)| class_name(*ha) == *h)),
                        _ => false,
                    };
                    if at_target || !enabled.contains(t) {
                        guided_phase += 1;
                        continue;
                    }
                    pick = Some(*t);
                    break;
                }
                pick.unwrap_or(enabled[0])
            }
            Policy::Prefix(p) | Policy::PrefixHigh(p) if k < p.len() && enabled.contains(&p[k]) => p[k],
            Policy::Prefix(_) => {
                if last_enabled { last.unwrap() } else { enabled[0] }
            }
            Policy::PrefixHigh(_) => {
                if last_enabled { last.unwrap() } else { *enabled.last().unwrap() }
            }
            Policy::Random { stay, .. } => {
                if last_enabled && rng.chance(*stay, 100) { last.unwrap() } else { *rng.pick(&enabled) }
            }
        };
        let what = g.describe(chosen);
        steps.push(Step { enabled: enabled.clone(), chosen, preempt: last_enabled && Some(chosen) != last, what });
        if let Status::Wants(a, Mode::Exclusive) = g.threads[chosen].status.clone()
            && !g.acquirable(chosen, a, Mode::Exclusive)
        {
            // the step is "call lock_exclusive and block in the queue": no thread runs
            g.locks.entry(a).or_default().queued_writers.push(chosen);
            if let Some(s) = steps.last_mut() {
                s.what = format!("{} (queues up)", s.what);
            }
            g.last_run = Some(chosen);
            continue;
        }
        g.current = Some(chosen);
        g.last_run = Some(chosen);
        drop(g);
        sched.cv.notify_all();
    }
    if dbg {
        eprintln!("sched: loop done after {:?} ({} steps)", t_dbg.elapsed(), steps.len());
    }
    // let everything unwind / finish
    for h in handles {
        let _ = h.join();
    }
    // background threads of the library are joined by the library itself (Drop of the database)
    let deadline = Instant::now() + Duration::from_secs(5);
    loop {
        let g = sched.inner.lock().unwrap();
        if g.threads.iter().all(|t| t.status == Status::Finished) || Instant::now() > deadline {
            break;
        }
        drop(g);
        sched.cv.notify_all();
        std::thread::sleep(Duration::from_millis(2));
    }
    obs::set_global(None);
    if dbg {
        eprintln!("sched: all joined after {:?}", t_dbg.elapsed());
    }
    let g = sched.inner.lock().unwrap();
    let panics = g.threads.iter().filter_map(|t| t.panic.clone().map(|p| (t.name.clone(), p))).collect();
    RunResult { end, steps, panics, edges: g.edges.clone(), thread_names: g.threads.iter().map(|t| t.name.clone()).collect(), punches: g.punches.clone() }
}

/// Next forced prefix in a depth-first enumeration of the schedule tree with at most
/// `max_preempt` pre-emptions; `None` when the tree is exhausted.
pub fn next_prefix(steps: &[Step], max_preempt: usize) -> Option<Vec<usize>> {
    next_prefix_dir(steps, max_preempt, false)
}

pub fn next_prefix_dir(steps: &[Step], max_preempt: usize, high: bool) -> Option<Vec<usize>> {
    // pre-emptions used before each step
    let mut used = vec![0usize; steps.len() + 1];
    for (i, s) in steps.iter().enumerate() {
        used[i + 1] = used[i] + s.preempt as usize;
    }
    for k in (0..steps.len()).rev() {
        let s = &steps[k];
        // the thread that ran before step k; exploration order at a step: the default choice
        // (continue `prev` if enabled, else the lowest enabled thread) first, then the others
        let prev = if k == 0 { None } else { Some(steps[k - 1].chosen) };
        let default = match prev {
            Some(p) if s.enabled.contains(&p) => p,
            _ => if high { *s.enabled.last().unwrap() } else { s.enabled[0] },
        };
        let mut order = vec![default];
        if high {
            order.extend(s.enabled.iter().rev().copied().filter(|&t| t != default));
        } else {
            order.extend(s.enabled.iter().copied().filter(|&t| t != default));
        }
        let pos = order.iter().position(|&t| t == s.chosen)?;
        for &alt in &order[pos + 1..] {
            let is_preempt = prev.is_some_and(|p| s.enabled.contains(&p) && alt != p);
            if used[k] + is_preempt as usize <= max_preempt {
                let mut p: Vec<usize> = steps[..k].iter().map(|x| x.chosen).collect();
                p.push(alt);
                return Some(p);
            }
        }
    }
    None
}

pub fn _unused(_: LockClass) {}
