//! C03 / C04 (and the drivers shared with C07, C08, C13, C16, C20): operation histories on
//! every stored format against the reference vector.

use std::collections::BTreeSet;

use serde_json::{Value, json};
use vecdb::{BytesVec, EagerVec, LZ4Vec, PcoVec, ZeroCopyVec, ZstdVec};

use crate::{
    common::{Counter, Ctx, Report, Rng, TempDir, Violation, fnv, run_shards},
    probes::{ProbeCfg, probe_reads},
    vecmodel::{Elem, VGenCfg, VMismatch, VOp, VecExec, VecLike, WB, WP, gen_vop, vops_json},
};

#[derive(Clone, Debug)]
pub struct HistCfg {
    pub nops: usize,
    pub rollback: bool,
    pub refusals: bool,
    pub keep: u16,
    pub forced: bool,
    pub probe: Option<ProbeCfg>,
    pub big_pushes: bool,
    pub allow_reset: bool,
    pub fixed_ops: Option<Vec<VOp>>,
    /// check the on-disk page index after every write (C07)
    pub check_pages: bool,
}

impl Default for HistCfg {
    fn default() -> Self {
        Self {
            nops: 60,
            rollback: false,
            refusals: false,
            keep: 0,
            forced: false,
            probe: None,
            big_pushes: true,
            allow_reset: true,
            fixed_ops: None,
            check_pages: false,
        }
    }
}

pub struct VecOutcome {
    pub label: String,
    pub format: &'static str,
    pub ops: Vec<VOp>,
    pub failed_at: Option<(usize, VMismatch)>,
    pub stats: Counter,
    pub kinds: BTreeSet<&'static str>,
    pub keep: u16,
}

pub fn run_vec_history<V: VecLike>(rng: &mut Rng, cfg: &HistCfg) -> VecOutcome {
    let tmp = TempDir::new("vec");
    let label = format!("{}<{}>", V::FORMAT, <V::E as Elem>::NAME);
    let mut out = VecOutcome {
        label,
        format: V::FORMAT,
        ops: vec![],
        failed_at: None,
        stats: Counter::default(),
        kinds: BTreeSet::new(),
        keep: cfg.keep,
    };
    let mut ex = match VecExec::<V>::new(tmp.path(), "v", cfg.keep, cfg.forced) {
        Ok(e) => e,
        Err(e) => {
            out.failed_at = Some((0, VMismatch { sig: "setup".into(), what: e }));
            return out;
        }
    };
    let gcfg = VGenCfg {
        raw_ops: V::RAW,
        rollback: cfg.rollback,
        refusals: cfg.refusals,
        per_page: V::per_page(),
        allow_reset: cfg.allow_reset,
        allow_reimport: true,
        big_pushes: cfg.big_pushes,
    };
    let mut next_stamp = 0u64;
    let n = cfg.fixed_ops.as_ref().map(|f| f.len()).unwrap_or(cfg.nops);
    for i in 0..n {
        let op = match &cfg.fixed_ops {
            Some(f) => f[i].clone(),
            None => {
                let stored = ex.v().v_stored_len();
                gen_vop(rng, &ex.model, &gcfg, stored, ex.last_op_committed, &mut next_stamp)
            }
        };
        if !V::RAW && matches!(op, VOp::Update(_) | VOp::Delete(_) | VOp::Take(_) | VOp::Fill | VOp::BadUpdate(_)) {
            continue;
        }
        out.ops.push(op.clone());
        out.kinds.insert(op.kind());
        if let Err(m) = ex.step(&op) {
            out.failed_at = Some((out.ops.len() - 1, m));
            break;
        }
        if cfg.check_pages
            && !V::RAW
            && V::per_page() > 0
            && matches!(op, VOp::Write | VOp::Flush | VOp::StampedWrite(_) | VOp::Commit(_) | VOp::Reimport)
            && let Err(m) = crate::c_codec::check_page_index::<V>(&ex)
        {
            out.failed_at = Some((out.ops.len() - 1, m));
            break;
        }
        if let Some(p) = &cfg.probe
            && (i % p.every == p.every - 1 || i + 1 == n)
            && let Err(m) = probe_reads(&mut ex, rng, p)
        {
            out.failed_at = Some((out.ops.len() - 1, m));
            break;
        }
    }
    out.stats = ex.stats.clone();
    out
}

pub type Runner = fn(&mut Rng, &HistCfg) -> VecOutcome;

/// Every (format, element type) instantiation that is exercised.
pub fn runners() -> Vec<(&'static str, Runner)> {
    macro_rules! r {
        ($name:expr, $t:ty) => {
            ($name, run_vec_history::<$t> as Runner)
        };
    }
    vec![
        r!("Bytes<u8>", BytesVec<usize, u8>),
        r!("Bytes<u16>", BytesVec<usize, u16>),
        r!("Bytes<u32>", BytesVec<usize, u32>),
        r!("Bytes<u64>", BytesVec<usize, u64>),
        r!("Bytes<u128>", BytesVec<usize, u128>),
        r!("Bytes<i64>", BytesVec<usize, i64>),
        r!("Bytes<f32>", BytesVec<usize, f32>),
        r!("Bytes<f64>", BytesVec<usize, f64>),
        r!("Bytes<[u8;3]>", BytesVec<usize, [u8; 3]>),
        r!("Bytes<[u8;16]>", BytesVec<usize, [u8; 16]>),
        r!("Bytes<[u8;33]>", BytesVec<usize, [u8; 33]>),
        r!("Bytes<derive>", BytesVec<usize, WB>),
        r!("ZeroCopy<u16>", ZeroCopyVec<usize, u16>),
        r!("ZeroCopy<u64>", ZeroCopyVec<usize, u64>),
        r!("ZeroCopy<f64>", ZeroCopyVec<usize, f64>),
        r!("ZeroCopy<[u8;3]>", ZeroCopyVec<usize, [u8; 3]>),
        r!("ZeroCopy<[u8;33]>", ZeroCopyVec<usize, [u8; 33]>),
        r!("Pco<u8>", PcoVec<usize, u8>),
        r!("Pco<u16>", PcoVec<usize, u16>),
        r!("Pco<u32>", PcoVec<usize, u32>),
        r!("Pco<u64>", PcoVec<usize, u64>),
        r!("Pco<i64>", PcoVec<usize, i64>),
        r!("Pco<f32>", PcoVec<usize, f32>),
        r!("Pco<f64>", PcoVec<usize, f64>),
        r!("Pco<derive>", PcoVec<usize, WP>),
        r!("LZ4<u8>", LZ4Vec<usize, u8>),
        r!("LZ4<u64>", LZ4Vec<usize, u64>),
        r!("LZ4<f32>", LZ4Vec<usize, f32>),
        r!("LZ4<[u8;16]>", LZ4Vec<usize, [u8; 16]>),
        r!("LZ4<u128>", LZ4Vec<usize, u128>),
        r!("Zstd<u16>", ZstdVec<usize, u16>),
        r!("Zstd<u64>", ZstdVec<usize, u64>),
        r!("Zstd<f64>", ZstdVec<usize, f64>),
        r!("Zstd<[u8;33]>", ZstdVec<usize, [u8; 33]>),
        r!("Eager<Bytes<u64>>", EagerVec<BytesVec<usize, u64>>),
        r!("Eager<Pco<u32>>", EagerVec<PcoVec<usize, u32>>),
    ]
}

pub struct VecCampaign {
    pub histories: u64,
    pub nontrivial: BTreeSet<u64>,
    pub stats: Counter,
    pub per_label: Counter,
    pub samples: Vec<Value>,
    pub ops_total: u64,
}

/// C04/C16 domain: rollbacks are issued only from a committed state.
fn in_rollback_domain(ops: &[VOp]) -> bool {
    let mut committed = true;
    for op in ops {
        if matches!(op, VOp::Rollback | VOp::RollbackBefore(_) | VOp::Reimport) && !committed {
            return false;
        }
        committed = matches!(op, VOp::Commit(_) | VOp::Rollback | VOp::RollbackBefore(_) | VOp::Reimport);
    }
    true
}

/// ddmin-style shrink of a failing history on one runner.
pub fn shrink_vec(runner: Runner, cfg: &HistCfg, ops: &[VOp], sig: &str, max_runs: usize) -> Vec<VOp> {
    let mut cur = ops.to_vec();
    let mut runs = 0;
    let mut chunk = (cur.len() / 2).max(1);
    let mut rng = Rng::new(7);
    loop {
        let mut i = 0;
        let mut progressed = false;
        while i < cur.len() && runs < max_runs {
            let mut cand = cur.clone();
            let end = (i + chunk).min(cand.len());
            cand.drain(i..end);
            if cfg.rollback && !in_rollback_domain(&cand) {
                i += chunk;
                continue;
            }
            runs += 1;
            let mut c = cfg.clone();
            c.fixed_ops = Some(cand.clone());
            let o = runner(&mut rng, &c);
            if let Some((at, m)) = &o.failed_at
                && m.sig == sig
            {
                cand.truncate(at + 1);
                cur = cand;
                progressed = true;
            } else {
                i += chunk;
            }
        }
        if runs >= max_runs || (chunk == 1 && !progressed) {
            break;
        }
        if !progressed {
            chunk /= 2;
            if chunk == 0 {
                break;
            }
        }
    }
    cur
}

/// Runs histories on all runners until the time budget is used.
pub fn vec_campaign(
    ctx: &Ctx,
    report: &Report,
    secs: f64,
    tag: u64,
    sig_prefix: &str,
    make_cfg: &(dyn Fn(&mut Rng, &'static str) -> Option<HistCfg> + Sync),
    directed: &[(Vec<VOp>, HistCfg)],
) -> VecCampaign {
    let rs = runners();
    let mut total = VecCampaign {
        histories: 0,
        nontrivial: BTreeSet::new(),
        stats: Counter::default(),
        per_label: Counter::default(),
        samples: vec![],
        ops_total: 0,
    };
    let handle = |o: VecOutcome, cfg: &HistCfg, runner: Runner, total: &mut VecCampaign, origin: Value| {
        total.histories += 1;
        total.ops_total += o.ops.len() as u64;
        total.stats.merge(&o.stats);
        total.per_label.bump(&o.label);
        let writes = o.stats.0.iter().filter(|(k, _)| k.starts_with("regime:")).map(|(_, v)| *v).sum::<u64>();
        if o.kinds.len() >= 4 && writes >= 2 {
            total.nontrivial.insert(fnv(format!("{}{}", o.label, vops_json(&o.ops)).as_bytes()));
        }
        if total.samples.len() < 3 && o.ops.len() > 8 && total.histories % 7 == 3 {
            total.samples.push(json!({"vector": o.label, "keep": o.keep, "ops": vops_json(&o.ops[..o.ops.len().min(40)]), "ops_total": o.ops.len()}));
        }
        if let Some((at, m)) = o.failed_at {
            let family = if o.format.contains("Bytes") || o.format.contains("ZeroCopy") { "raw" } else { "compressed" };
            let sig = format!("{sig_prefix}|{family}|{}", m.sig);
            let ops = &o.ops[..=at.min(o.ops.len().saturating_sub(1))];
            let small = if report.is_known(&sig) { ops.to_vec() } else { shrink_vec(runner, cfg, ops, &m.sig, 120) };
            report.violation(
                ctx,
                Violation {
                    sig,
                    what: format!("{}: {}", o.label, m.what),
                    detail: json!({
                        "vector": o.label,
                        "keep": o.keep,
                        "forced_import": cfg.forced,
                        "origin": origin,
                        "failed_at_op": at,
                        "shrunk_ops": vops_json(&small),
                        "mismatch": m.what,
                    }),
                },
            );
        }
    };

    // directed histories on every runner
    for (k, (ops, cfg)) in directed.iter().enumerate() {
        for (_, runner) in rs.iter() {
            let mut c = cfg.clone();
            c.fixed_ops = Some(ops.clone());
            let mut rng = Rng::derive(ctx.seed, &[tag, 7777, k as u64]);
            let o = runner(&mut rng, &c);
            handle(o, &c, *runner, &mut total, json!({"directed": k}));
        }
    }

    let deadline = ctx.elapsed() + secs;
    let results = run_shards(ctx.threads, |shard| {
        let mut outs = vec![];
        let mut h = 0u64;
        while ctx.elapsed() < deadline {
            let mut rng = Rng::derive(ctx.seed, &[tag, shard as u64, h]);
            let (name, runner) = rs[(h as usize * ctx.threads + shard) % rs.len()];
            h += 1;
            let Some(cfg) = make_cfg(&mut rng, name) else { continue };
            let o = runner(&mut rng, &cfg);
            let failed = o.failed_at.is_some();
            outs.push((h, o, cfg, runner));
            if failed && report.violation_count() > 8 {
                break;
            }
        }
        outs
    });
    for (shard, outs) in results.into_iter().enumerate() {
        for (h, o, cfg, runner) in outs {
            handle(o, &cfg, runner, &mut total, json!({"shard": shard, "history": h}));
        }
    }
    total
}

fn regimes_json(c: &Counter) -> Value {
    let mut m = serde_json::Map::new();
    for (k, v) in &c.0 {
        if let Some(rest) = k.strip_prefix("regime:") {
            m.insert(rest.to_string(), json!(v));
        }
    }
    Value::Object(m)
}

fn ops_by_kind(c: &Counter) -> Value {
    Value::Object(c.0.iter().filter(|(k, _)| k.starts_with("op:")).map(|(k, v)| (k[3..].to_string(), json!(v))).collect())
}

pub fn directed_c03() -> Vec<(Vec<VOp>, HistCfg)> {
    let cfg = HistCfg::default();
    vec![
        // reset followed by flush and re-import (with and without pushes)
        (vec![VOp::Push(10), VOp::Flush, VOp::Reset, VOp::Flush, VOp::Reimport, VOp::Push(3), VOp::Reimport], cfg.clone()),
        (vec![VOp::Push(5000), VOp::Write, VOp::Reset, VOp::Push(7), VOp::Flush, VOp::Reimport], cfg.clone()),
        // delete / update on buffered and stored slots
        (vec![VOp::Push(5), VOp::Delete(2), VOp::Update(2), VOp::Write, VOp::Delete(1), VOp::Update(1), VOp::Reimport], cfg.clone()),
        (vec![VOp::Push(5), VOp::Write, VOp::Delete(4), VOp::Fill, VOp::Fill, VOp::Take(0), VOp::Write, VOp::Reimport, VOp::Fill, VOp::Write, VOp::Reimport], cfg.clone()),
        // truncation regimes
        (vec![VOp::Push(3000), VOp::Write, VOp::Truncate(2048), VOp::Write, VOp::Push(1), VOp::Write, VOp::Truncate(100), VOp::Push(5), VOp::Reimport], cfg.clone()),
    ]
}

pub fn check_c03(ctx: &Ctx) -> i32 {
    let report = Report::new("C03");
    let make = |rng: &mut Rng, _name: &'static str| {
        Some(HistCfg {
            nops: rng.range(20, 120),
            forced: rng.chance(1, 4),
            big_pushes: rng.chance(2, 3),
            ..HistCfg::default()
        })
    };
    let c = vec_campaign(ctx, &report, ctx.secs(40.0, 420.0), 3, "C03", &make, &directed_c03());
    let need = [
        "Bytes:new_data", "Bytes:truncated", "Bytes:holes_region_created", "Bytes:holes_region_removed",
        "ZeroCopy:new_data", "ZeroCopy:truncated",
        "Pco:fast_raw_append", "Pco:partial_reencode", "Pco:fresh_pages", "Pco:boundary_truncate",
        "LZ4:fast_raw_append", "LZ4:partial_reencode", "LZ4:fresh_pages",
        "Zstd:fast_raw_append", "Zstd:partial_reencode", "Zstd:fresh_pages",
    ];
    for n in need {
        if c.stats.get(&format!("regime:{n}")) == 0 {
            report.inconclusive(format!("required write regime not reached: {n}"));
        }
    }
    let coverage = json!({
        "evaluations": c.histories,
        "distinct_nontrivial": c.nontrivial.len(),
        "rule": "one evaluation = one operation history on one (format, element type) vector, compared with the reference list (length, every slot, deleted-slot set, stamp, dense collect) after every operation; non-trivial = >=4 distinct operation kinds and >=2 writes that took a classified regime; distinct = hash(vector type, operation list)",
        "samples": c.samples,
        "operations_executed": c.ops_total,
        "ops_by_kind": ops_by_kind(&c.stats),
        "write_regimes": regimes_json(&c.stats),
        "histories_per_vector_type": c.per_label.to_json(),
    });
    report.finish(ctx, "exploration", coverage, &["vectors up to a few pages (<= ~6 x 16 KiB); values generated, not exhaustive"])
}

pub fn directed_c04() -> Vec<(Vec<VOp>, HistCfg)> {
    let cfg = HistCfg { rollback: true, keep: 5, allow_reset: false, ..HistCfg::default() };
    vec![
        // single rollback, re-commit, rollback again (re-basing)
        (vec![VOp::Push(5), VOp::Commit(1), VOp::Push(5), VOp::Commit(2), VOp::Rollback, VOp::Push(3), VOp::Commit(2), VOp::Rollback, VOp::Rollback], cfg.clone()),
        // rollback across a truncating commit, then push + commit
        (vec![VOp::Push(10), VOp::Commit(1), VOp::Truncate(5), VOp::Commit(2), VOp::Rollback, VOp::Push(3), VOp::Commit(2), VOp::Reimport, VOp::Rollback, VOp::Rollback], cfg.clone()),
        // deep chain + rollback_before
        (vec![VOp::Push(4), VOp::Commit(1), VOp::Push(4), VOp::Commit(2), VOp::Push(4), VOp::Commit(3), VOp::Push(4), VOp::Commit(4), VOp::RollbackBefore(2), VOp::Push(1), VOp::Commit(2), VOp::Rollback], cfg.clone()),
        // raw edits between commits
        (vec![VOp::Push(8), VOp::Commit(1), VOp::Update(3), VOp::Delete(5), VOp::Commit(2), VOp::Fill, VOp::Truncate(6), VOp::Commit(3), VOp::Rollback, VOp::Rollback, VOp::Reimport, VOp::Rollback], cfg.clone()),
    ]
}

pub fn check_c04(ctx: &Ctx) -> i32 {
    let report = Report::new("C04");
    let make = |rng: &mut Rng, name: &'static str| {
        if name.starts_with("Eager") && rng.chance(1, 2) {
            return None;
        }
        Some(HistCfg {
            nops: rng.range(15, 90),
            rollback: true,
            keep: rng.range(1, 6) as u16,
            allow_reset: rng.chance(1, 5),
            big_pushes: rng.chance(1, 2),
            ..HistCfg::default()
        })
    };
    let c = vec_campaign(ctx, &report, ctx.secs(40.0, 420.0), 4, "C04", &make, &directed_c04());
    let coverage = json!({
        "evaluations": c.histories,
        "distinct_nontrivial": c.nontrivial.len(),
        "rule": "one evaluation = one commit/edit/rollback history on one (format, element type) vector with retention 1..6; only pushes, truncations, updates and deletions occur between commits and rollbacks are issued from committed states; the vector is compared with the model's commit chain after every operation; non-trivial = >=4 operation kinds and >=2 classified writes; distinct = hash(vector type, operation list)",
        "samples": c.samples,
        "operations_executed": c.ops_total,
        "ops_by_kind": ops_by_kind(&c.stats),
        "write_regimes": regimes_json(&c.stats),
        "histories_per_vector_type": c.per_label.to_json(),
    });
    report.finish(ctx, "exploration", coverage, &["rollbacks only from committed states; no plain write()/flush() between commits (the statement's domain)"])
}

/// `--replay <file>`: re-runs the (shrunk) operation list of a replay file written by one of the
/// vector checks on the same vector type and prints the outcome.
pub fn replay_vec(ctx: &Ctx, base: HistCfg) -> i32 {
    let path = ctx.replay.as_ref().unwrap();
    let Ok(text) = std::fs::read_to_string(path) else {
        eprintln!("cannot read {}", path.display());
        return 2;
    };
    let Ok(v) = serde_json::from_str::<Value>(&text) else {
        eprintln!("not JSON: {}", path.display());
        return 2;
    };
    let d = &v["detail"];
    let label = d["vector"].as_str().unwrap_or("");
    let ops: Vec<VOp> = d["shrunk_ops"].as_array().map(|a| a.iter().filter_map(VOp::from_json).collect()).unwrap_or_default();
    let Some((_, runner)) = runners().into_iter().find(|(n, r)| {
        let mut rng = Rng::new(0);
        let c = HistCfg { fixed_ops: Some(vec![]), ..HistCfg::default() };
        *n == label || r(&mut rng, &c).label == label
    }) else {
        eprintln!("unknown vector type '{label}'");
        return 2;
    };
    let cfg = HistCfg {
        keep: d["keep"].as_u64().unwrap_or(0) as u16,
        forced: d["forced_import"].as_bool().unwrap_or(false),
        fixed_ops: Some(ops.clone()),
        ..base
    };
    let mut rng = Rng::new(ctx.seed);
    let o = runner(&mut rng, &cfg);
    println!("replayed {} operations on {}: {}", o.ops.len(), o.label, vops_json(&o.ops));
    match o.failed_at {
        Some((at, m)) => {
            println!("VIOLATION property={} replay={} sig={} :: at op {at}: {}", ctx.prop, path.display(), m.sig, m.what);
            1
        }
        None => {
            println!("OK replay passed (no mismatch)");
            0
        }
    }
}


pub fn replay_cfg(prop: &str) -> HistCfg {
    match prop {
        "C04" | "C16" => HistCfg { rollback: true, ..HistCfg::default() },
        "C07" => HistCfg { check_pages: true, ..HistCfg::default() },
        "C08" => HistCfg { probe: Some(ProbeCfg { every: 1, pairs: 24, access: false, values: true }), ..HistCfg::default() },
        "C20" => HistCfg { probe: Some(ProbeCfg { every: 1, pairs: 12, access: true, values: false }), ..HistCfg::default() },
        _ => HistCfg::default(),
    }
}
