//! C03 / C04 (and the drivers shared with C07, C08, C13, C16, C20): operation histories on
//! every stored format against the reference vector.

use std::collections::BTreeSet;

use serde_json::{Value, json};
use vecdb::{BytesVec, EagerVec, LZ4Vec, PcoVec, ZeroCopyVec, ZstdVec};

use crate::{
    common::{Counter, Ctx, Report, Rng, TempDir, Violation, fnv, run_shards},
    probes::{ProbeCfg, probe_reads},
    vecmodel::{Elem, VGenCfg, VMismatch, VOp, VecExec, VecLike, WB, WP, gen_vop, vops_json},
};

#[derive(Clone, Debug)]
pub struct HistCfg {
    pub nops: usize,
    pub rollback: bool,
    pub refusals: bool,
    pub keep: u16,
    pub forced: bool,
    pub probe: Option<ProbeCfg>,
    pub big_pushes: bool,
    pub allow_reset: bool,
    pub fixed_ops: Option<Vec<VOp>>,
    /// check the on-disk page index after every write (C07)
    pub check_pages: bool,
    /// after these operation indices (committed states) run the change-file fault phase (C16)
    pub fault_every: usize,
    /// compare the change-directory listing with the model after every commit (C16)
    pub check_files: bool,
}

impl Default for HistCfg {
    fn default() -> Self {
        Self {
            nops: 60,
            rollback: false,
            refusals: false,
            keep: 0,
            forced: false,
            probe: None,
            big_pushes: true,
            allow_reset: true,
            fixed_ops: None,
            check_pages: false,
            fault_every: 0,
            check_files: false,
        }
    }
}

pub struct VecOutcome {
    pub label: String,
    pub format: &'static str,
    pub ops: Vec<VOp>,
    pub failed_at: Option<(usize, VMismatch)>,
    pub stats: Counter,
    pub kinds: BTreeSet<&'static str>,
    pub keep: u16,
}

pub fn run_vec_history<V: VecLike>(rng: &mut Rng, cfg: &HistCfg) -> VecOutcome {
    let tmp = TempDir::new("vec");
    let label = format!("{}<{}>", V::FORMAT, <V::E as Elem>::NAME);
    let mut out = VecOutcome {
        label,
        format: V::FORMAT,
        ops: vec![],
        failed_at: None,
        stats: Counter::default(),
        kinds: BTreeSet::new(),
        keep: cfg.keep,
    };
    let mut ex = match VecExec::<V>::new(tmp.path(), "v", cfg.keep, cfg.forced) {
        Ok(e) => e,
        Err(e) => {
            out.failed_at = Some((0, VMismatch { sig: "setup".into(), what: e }));
            return out;
        }
    };
    let gcfg = VGenCfg {
        raw_ops: V::RAW,
        rollback: cfg.rollback,
        refusals: cfg.refusals,
        per_page: V::per_page(),
        allow_reset: cfg.allow_reset,
        allow_reimport: true,
        big_pushes: cfg.big_pushes,
    };
    let mut next_stamp = 0u64;
    let n = cfg.fixed_ops.as_ref().map(|f| f.len()).unwrap_or(cfg.nops);
    for i in 0..n {
        let op = match &cfg.fixed_ops {
            Some(f) => f[i].clone(),
            None => {
                let stored = ex.v().v_stored_len();
                gen_vop(rng, &ex.model, &gcfg, stored, ex.last_op_committed, &mut next_stamp)
            }
        };
        if !V::RAW && matches!(op, VOp::Update(_) | VOp::Delete(_) | VOp::Take(_) | VOp::Fill | VOp::BadUpdate(_)) {
            continue;
        }
        out.ops.push(op.clone());
        out.kinds.insert(op.kind());
        if let Err(m) = ex.step(&op) {
            out.failed_at = Some((out.ops.len() - 1, m));
            break;
        }
        if cfg.check_pages
            && !V::RAW
            && V::per_page() > 0
            && matches!(op, VOp::Write | VOp::Flush | VOp::StampedWrite(_) | VOp::Commit(_) | VOp::Reimport | VOp::ReimportKeep(_))
        {
            if let Err(m) = crate::c_codec::check_page_index::<V>(&ex) {
                out.failed_at = Some((out.ops.len() - 1, m));
                break;
            }
            ex.stats.bump("pages:index_checked");
        }
        if cfg.check_files && matches!(op, VOp::Commit(_)) {
            let on_disk = ex.change_files();
            let want: BTreeSet<u64> = ex.model.files.keys().copied().collect();
            ex.stats.bump("files:listings_checked");
            if on_disk != want {
                out.failed_at = Some((out.ops.len() - 1, VMismatch { sig: "change-dir|listing".into(), what: format!("change directory holds records {:?}, the retention rule (k = {}) allows exactly {:?}", on_disk, cfg.keep, want) }));
                break;
            }
        }
        if cfg.fault_every > 0 && ex.last_op_committed && ex.model.undo_depth() > 0 && (out.ops.len() % cfg.fault_every == 0 || i + 1 == n) {
            match crate::c_fault::fault_phase(&mut ex, rng, 600) {
                Ok(st) => {
                    ex.stats.add("fault:injected", st.faults);
                    ex.stats.bump("fault:phases");
                    for (k, v) in st.by_kind {
                        ex.stats.add(&format!("fault:kind:{k}"), v);
                    }
                    for (k, v) in st.error_kinds {
                        ex.stats.add(&format!("fault:error:{k}"), v);
                    }
                }
                Err(m) => {
                    out.failed_at = Some((out.ops.len() - 1, m));
                    break;
                }
            }
        }
        if let Some(p) = &cfg.probe
            && (i % p.every == p.every - 1 || i + 1 == n)
            && let Err(m) = probe_reads(&mut ex, rng, p)
        {
            out.failed_at = Some((out.ops.len() - 1, m));
            break;
        }
    }
    out.stats = ex.stats.clone();
    out
}

pub type Runner = fn(&mut Rng, &HistCfg) -> VecOutcome;

/// Every (format, element type) instantiation that is exercised.
pub fn runners() -> Vec<(&'static str, Runner)> {
    macro_rules! r {
        ($name:expr, $t:ty) => {
            ($name, run_vec_history::<$t> as Runner)
        };
    }
    vec![
        r!("Bytes<u8>", BytesVec<usize, u8>),
        r!("Bytes<u16>", BytesVec<usize, u16>),
        r!("Bytes<u32>", BytesVec<usize, u32>),
        r!("Bytes<u64>", BytesVec<usize, u64>),
        r!("Bytes<u128>", BytesVec<usize, u128>),
        r!("Bytes<i64>", BytesVec<usize, i64>),
        r!("Bytes<f32>", BytesVec<usize, f32>),
        r!("Bytes<f64>", BytesVec<usize, f64>),
        r!("Bytes<[u8;3]>", BytesVec<usize, [u8; 3]>),
        r!("Bytes<[u8;16]>", BytesVec<usize, [u8; 16]>),
        r!("Bytes<[u8;33]>", BytesVec<usize, [u8; 33]>),
        r!("Bytes<derive>", BytesVec<usize, WB>),
        r!("ZeroCopy<u16>", ZeroCopyVec<usize, u16>),
        r!("ZeroCopy<u64>", ZeroCopyVec<usize, u64>),
        r!("ZeroCopy<f64>", ZeroCopyVec<usize, f64>),
        r!("ZeroCopy<[u8;3]>", ZeroCopyVec<usize, [u8; 3]>),
        r!("ZeroCopy<[u8;33]>", ZeroCopyVec<usize, [u8; 33]>),
        r!("Pco<u8>", PcoVec<usize, u8>),
        r!("Pco<u16>", PcoVec<usize, u16>),
        r!("Pco<u32>", PcoVec<usize, u32>),
        r!("Pco<u64>", PcoVec<usize, u64>),
        r!("Pco<i64>", PcoVec<usize, i64>),
        r!("Pco<f32>", PcoVec<usize, f32>),
        r!("Pco<f64>", PcoVec<usize, f64>),
        r!("Pco<derive>", PcoVec<usize, WP>),
        r!("LZ4<u8>", LZ4Vec<usize, u8>),
        r!("LZ4<u64>", LZ4Vec<usize, u64>),
        r!("LZ4<f32>", LZ4Vec<usize, f32>),
        r!("LZ4<[u8;16]>", LZ4Vec<usize, [u8; 16]>),
        r!("LZ4<u128>", LZ4Vec<usize, u128>),
        r!("Zstd<u16>", ZstdVec<usize, u16>),
        r!("Zstd<u64>", ZstdVec<usize, u64>),
        r!("Zstd<f64>", ZstdVec<usize, f64>),
        r!("Zstd<[u8;33]>", ZstdVec<usize, [u8; 33]>),
        r!("Eager<Bytes<u64>>", EagerVec<BytesVec<usize, u64>>),
        r!("Eager<Pco<u32>>", EagerVec<PcoVec<usize, u32>>),
    ]
}

pub struct VecCampaign {
    pub histories: u64,
    pub nontrivial: BTreeSet<u64>,
    pub stats: Counter,
    pub per_label: Counter,
    pub samples: Vec<Value>,
    pub ops_total: u64,
}

/// C04/C16 domain: rollbacks are issued only from a committed state.
fn in_rollback_domain(ops: &[VOp]) -> bool {
    let mut committed = true;
    for op in ops {
        if matches!(op, VOp::Rollback | VOp::RollbackBefore(_) | VOp::Reimport | VOp::ReimportKeep(_)) && !committed {
            return false;
        }
        committed = matches!(op, VOp::Commit(_) | VOp::Rollback | VOp::RollbackBefore(_) | VOp::Reimport | VOp::ReimportKeep(_));
    }
    true
}

/// ddmin-style shrink of a failing history on one runner.
pub fn shrink_vec(runner: Runner, cfg: &HistCfg, ops: &[VOp], sig: &str, max_runs: usize) -> Vec<VOp> {
    let mut cur = ops.to_vec();
    let mut runs = 0;
    let mut chunk = (cur.len() / 2).max(1);
    let mut rng = Rng::new(7);
    loop {
        let mut i = 0;
        let mut progressed = false;
        while i < cur.len() && runs < max_runs {
            let mut cand = cur.clone();
            let end = (i + chunk).min(cand.len());
            cand.drain(i..end);
            if cfg.rollback && !in_rollback_domain(&cand) {
                i += chunk;
                continue;
            }
            runs += 1;
            let mut c = cfg.clone();
            c.fixed_ops = Some(cand.clone());
            let o = runner(&mut rng, &c);
            if let Some((at, m)) = &o.failed_at
                && m.sig == sig
            {
                cand.truncate(at + 1);
                cur = cand;
                progressed = true;
            } else {
                i += chunk;
            }
        }
        if runs >= max_runs || (chunk == 1 && !progressed) {
            break;
        }
        if !progressed {
            chunk /= 2;
            if chunk == 0 {
                break;
            }
        }
    }
    cur
}

/// Runs histories on all runners until the time budget is used.
pub fn vec_campaign(
    ctx: &Ctx,
    report: &Report,
    secs: f64,
    tag: u64,
    sig_prefix: &str,
    make_cfg: &(dyn Fn(&mut Rng, &'static str) -> Option<HistCfg> + Sync),
    directed: &[(Vec<VOp>, HistCfg)],
) -> VecCampaign {
    let rs = runners();
    let mut total = VecCampaign {
        histories: 0,
        nontrivial: BTreeSet::new(),
        stats: Counter::default(),
        per_label: Counter::default(),
        samples: vec![],
        ops_total: 0,
    };
    let handle = |o: VecOutcome, cfg: &HistCfg, runner: Runner, total: &mut VecCampaign, origin: Value| {
        total.histories += 1;
        total.ops_total += o.ops.len() as u64;
        total.stats.merge(&o.stats);
        total.per_label.bump(&o.label);
        let writes = o.stats.0.iter().filter(|(k, _)| k.starts_with("regime:")).map(|(_, v)| *v).sum::<u64>();
        if o.kinds.len() >= 4 && writes >= 2 {
            total.nontrivial.insert(fnv(format!("{}{}", o.label, vops_json(&o.ops)).as_bytes()));
        }
        if total.samples.len() < 3 && o.ops.len() > 8 && total.histories % 7 == 3 {
            total.samples.push(json!({"vector": o.label, "keep": o.keep, "ops": vops_json(&o.ops[..o.ops.len().min(40)]), "ops_total": o.ops.len()}));
        }
        if let Some((at, m)) = o.failed_at {
            let family = if o.format.contains("Bytes") || o.format.contains("ZeroCopy") { "raw" } else { "compressed" };
            let sig = format!("{sig_prefix}|{family}|{}", m.sig);
            let ops = &o.ops[..=at.min(o.ops.len().saturating_sub(1))];
            let small = if report.should_shrink(&sig) { shrink_vec(runner, cfg, ops, &m.sig, 120) } else { ops.to_vec() };
            report.violation(
                ctx,
                Violation {
                    sig,
                    what: format!("{}: {}", o.label, m.what),
                    detail: json!({
                        "vector": o.label,
                        "keep": o.keep,
                        "forced_import": cfg.forced,
                        "origin": origin,
                        "failed_at_op": at,
                        "shrunk_ops": vops_json(&small),
                        "mismatch": m.what,
                    }),
                },
            );
        }
    };

    // directed histories on every runner
    for (k, (ops, cfg)) in directed.iter().enumerate() {
        for (ri, (_, runner)) in rs.iter().enumerate() {
            if crate::common::reduced() && (ri + k) % 4 != 0 {
                continue;
            }
            let mut c = cfg.clone();
            c.fixed_ops = Some(ops.clone());
            let mut rng = Rng::derive(ctx.seed, &[tag, 7777, k as u64]);
            let o = runner(&mut rng, &c);
            handle(o, &c, *runner, &mut total, json!({"directed": k}));
        }
    }

    let deadline = ctx.elapsed() + secs;
    let results = run_shards(ctx.threads, |shard| {
        let mut outs = vec![];
        let mut h = 0u64;
        while ctx.elapsed() < deadline {
            let mut rng = Rng::derive(ctx.seed, &[tag, shard as u64, h]);
            let (name, runner) = rs[(h as usize * ctx.threads + shard) % rs.len()];
            h += 1;
            let Some(cfg) = make_cfg(&mut rng, name) else { continue };
            let o = runner(&mut rng, &cfg);
            if let Some((_, m)) = &o.failed_at {
                let family = if o.format.contains("Bytes") || o.format.contains("ZeroCopy") { "raw" } else { "compressed" };
                if !report.is_known(&format!("{sig_prefix}|{family}|{}", m.sig)) {
                    report.note_failure();
                }
            }
            outs.push((h, o, cfg, runner));
            if report.failures_seen() >= 8 {
                break;
            }
        }
        outs
    });
    for (shard, outs) in results.into_iter().enumerate() {
        for (h, o, cfg, runner) in outs {
            handle(o, &cfg, runner, &mut total, json!({"shard": shard, "history": h}));
        }
    }
    total
}

fn regimes_json(c: &Counter) -> Value {
    let mut m = serde_json::Map::new();
    for (k, v) in &c.0 {
        if let Some(rest) = k.strip_prefix("regime:") {
            m.insert(rest.to_string(), json!(v));
        }
    }
    Value::Object(m)
}

fn ops_by_kind(c: &Counter) -> Value {
    Value::Object(c.0.iter().filter(|(k, _)| k.starts_with("op:")).map(|(k, v)| (k[3..].to_string(), json!(v))).collect())
}

pub fn directed_c03() -> Vec<(Vec<VOp>, HistCfg)> {
    let cfg = HistCfg::default();
    vec![
        // reset followed by flush and re-import (with and without pushes)
        (vec![VOp::Push(10), VOp::Flush, VOp::Reset, VOp::Flush, VOp::Reimport, VOp::Push(3), VOp::Reimport], cfg.clone()),
        (vec![VOp::Push(5000), VOp::Write, VOp::Reset, VOp::Push(7), VOp::Flush, VOp::Reimport], cfg.clone()),
        // delete / update on buffered and stored slots
        (vec![VOp::Push(5), VOp::Delete(2), VOp::Update(2), VOp::Write, VOp::Delete(1), VOp::Update(1), VOp::Reimport], cfg.clone()),
        (vec![VOp::Push(5), VOp::Write, VOp::Delete(4), VOp::Fill, VOp::Fill, VOp::Take(0), VOp::Write, VOp::Reimport, VOp::Fill, VOp::Write, VOp::Reimport], cfg.clone()),
        // truncation regimes
        (vec![VOp::Push(3000), VOp::Write, VOp::Truncate(2048), VOp::Write, VOp::Push(1), VOp::Write, VOp::Truncate(100), VOp::Push(5), VOp::Reimport], cfg.clone()),
    ]
}

pub fn check_c03(ctx: &Ctx) -> i32 {
    let report = Report::new("C03");
    let make = |rng: &mut Rng, _name: &'static str| {
        Some(HistCfg {
            nops: rng.range(20, 120),
            forced: rng.chance(1, 4),
            big_pushes: rng.chance(2, 3),
            ..HistCfg::default()
        })
    };
    let c = vec_campaign(ctx, &report, ctx.secs(40.0, 420.0), 3, "C03", &make, &directed_c03());
    let need = [
        "Bytes:new_data", "Bytes:truncated", "Bytes:holes_region_created", "Bytes:holes_region_removed",
        "ZeroCopy:new_data", "ZeroCopy:truncated",
        "Pco:fast_raw_append", "Pco:partial_reencode", "Pco:fresh_pages", "Pco:boundary_truncate",
        "LZ4:fast_raw_append", "LZ4:partial_reencode", "LZ4:fresh_pages",
        "Zstd:fast_raw_append", "Zstd:partial_reencode", "Zstd:fresh_pages",
    ];
    for n in need {
        if c.stats.get(&format!("regime:{n}")) == 0 {
            report.inconclusive(format!("required write regime not reached: {n}"));
        }
    }
    let coverage = json!({
        "evaluations": c.histories,
        "distinct_nontrivial": c.nontrivial.len(),
        "rule": "one evaluation = one operation history on one (format, element type) vector, compared with the reference list (length, every slot, deleted-slot set, stamp, dense collect) after every operation; non-trivial = >=4 distinct operation kinds and >=2 writes that took a classified regime; distinct = hash(vector type, operation list)",
        "samples": c.samples,
        "operations_executed": c.ops_total,
        "ops_by_kind": ops_by_kind(&c.stats),
        "write_regimes": regimes_json(&c.stats),
        "histories_per_vector_type": c.per_label.to_json(),
    });
    report.finish(ctx, "exploration", coverage, &["vectors up to a few pages (<= ~6 x 16 KiB); values generated, not exhaustive"])
}

pub fn directed_c04() -> Vec<(Vec<VOp>, HistCfg)> {
    let cfg = HistCfg { rollback: true, keep: 5, allow_reset: false, ..HistCfg::default() };
    vec![
        // single rollback, re-commit, rollback again (re-basing)
        (vec![VOp::Push(5), VOp::Commit(1), VOp::Push(5), VOp::Commit(2), VOp::Rollback, VOp::Push(3), VOp::Commit(2), VOp::Rollback, VOp::Rollback], cfg.clone()),
        // rollback across a truncating commit, then push + commit
        (vec![VOp::Push(10), VOp::Commit(1), VOp::Truncate(5), VOp::Commit(2), VOp::Rollback, VOp::Push(3), VOp::Commit(2), VOp::Reimport, VOp::Rollback, VOp::Rollback], cfg.clone()),
        // deep chain + rollback_before
        (vec![VOp::Push(4), VOp::Commit(1), VOp::Push(4), VOp::Commit(2), VOp::Push(4), VOp::Commit(3), VOp::Push(4), VOp::Commit(4), VOp::RollbackBefore(2), VOp::Push(1), VOp::Commit(2), VOp::Rollback], cfg.clone()),
        // raw edits between commits
        (vec![VOp::Push(8), VOp::Commit(1), VOp::Update(3), VOp::Delete(5), VOp::Commit(2), VOp::Fill, VOp::Truncate(6), VOp::Commit(3), VOp::Rollback, VOp::Rollback, VOp::Reimport, VOp::Rollback], cfg.clone()),
    ]
}

pub fn check_c04(ctx: &Ctx) -> i32 {
    let report = Report::new("C04");
    let make = |rng: &mut Rng, name: &'static str| {
        if name.starts_with("Eager") && rng.chance(1, 2) {
            return None;
        }
        Some(HistCfg {
            nops: rng.range(15, 90),
            rollback: true,
            keep: rng.range(1, 6) as u16,
            allow_reset: rng.chance(1, 5),
            big_pushes: rng.chance(1, 2),
            ..HistCfg::default()
        })
    };
    let c = vec_campaign(ctx, &report, ctx.secs(40.0, 420.0), 4, "C04", &make, &directed_c04());
    let coverage = json!({
        "evaluations": c.histories,
        "distinct_nontrivial": c.nontrivial.len(),
        "rule": "one evaluation = one commit/edit/rollback history on one (format, element type) vector with retention 1..6; only pushes, truncations, updates and deletions occur between commits and rollbacks are issued from committed states; the vector is compared with the model's commit chain after every operation; non-trivial = >=4 operation kinds and >=2 classified writes; distinct = hash(vector type, operation list)",
        "samples": c.samples,
        "operations_executed": c.ops_total,
        "ops_by_kind": ops_by_kind(&c.stats),
        "write_regimes": regimes_json(&c.stats),
        "histories_per_vector_type": c.per_label.to_json(),
    });
    report.finish(ctx, "exploration", coverage, &["rollbacks only from committed states; no plain write()/flush() between commits (the statement's domain)"])
}

/// `--replay <file>`: re-runs the (shrunk) operation list of a replay file written by one of the
/// vector checks on the same vector type and prints the outcome.
pub fn replay_vec(ctx: &Ctx, base: HistCfg) -> i32 {
    let path = ctx.replay.as_ref().unwrap();
    let Ok(text) = std::fs::read_to_string(path) else {
        eprintln!("cannot read {}", path.display());
        return 2;
    };
    let Ok(v) = serde_json::from_str::<Value>(&text) else {
        eprintln!("not JSON: {}", path.display());
        return 2;
    };
    let d = &v["detail"];
    let label = d["vector"].as_str().unwrap_or("");
    let ops: Vec<VOp> = d["shrunk_ops"].as_array().map(|a| a.iter().filter_map(VOp::from_json).collect()).unwrap_or_default();
    let Some((_, runner)) = runners().into_iter().find(|(n, r)| {
        let mut rng = Rng::new(0);
        let c = HistCfg { fixed_ops: Some(vec![]), ..HistCfg::default() };
        *n == label || r(&mut rng, &c).label == label
    }) else {
        eprintln!("unknown vector type '{label}'");
        return 2;
    };
    let cfg = HistCfg {
        keep: d["keep"].as_u64().unwrap_or(0) as u16,
        forced: d["forced_import"].as_bool().unwrap_or(false),
        fixed_ops: Some(ops.clone()),
        ..base
    };
    let mut rng = Rng::new(ctx.seed);
    let o = runner(&mut rng, &cfg);
    println!("replayed {} operations on {}: {}", o.ops.len(), o.label, vops_json(&o.ops));
    match o.failed_at {
        Some((at, m)) => {
            println!("VIOLATION property={} replay={} sig={} :: at op {at}: {}", ctx.prop, path.display(), m.sig, m.what);
            1
        }
        None => {
            println!("OK replay passed (no mismatch)");
            0
        }
    }
}


pub fn replay_cfg(prop: &str) -> HistCfg {
    match prop {
        "C04" | "C16" => HistCfg { rollback: true, ..HistCfg::default() },
        "C07" => HistCfg { check_pages: true, ..HistCfg::default() },
        "C08" => HistCfg { probe: Some(ProbeCfg { every: 1, pairs: 24, access: false, values: true }), ..HistCfg::default() },
        "C20" => HistCfg { probe: Some(ProbeCfg { every: 1, pairs: 12, access: true, values: false }), ..HistCfg::default() },
        _ => HistCfg::default(),
    }
}

// ---------------------------------------------------------------------------------------------
// C07: compressed storage is lossless; on-disk page index well-formed
// ---------------------------------------------------------------------------------------------

fn is_compressed_runner(name: &str) -> bool {
    name.starts_with("Pco") || name.starts_with("LZ4") || name.starts_with("Zstd") || name.starts_with("Eager<Pco")
}

pub fn directed_c07() -> Vec<(Vec<VOp>, HistCfg)> {
    let cfg = HistCfg { check_pages: true, ..HistCfg::default() };
    // exhaustive (fill, push, truncate) triples around the page boundaries are generated in
    // `boundary_triples`; these are the named regimes of the write path
    let mut out = vec![];
    for pp in [2048usize, 4096, 8192, 16384, 1024, 496, 5461] {
        // pp = values per page of the element widths in use (8, 4, 2, 1, 16, 33, 3 bytes)
        out.push((vec![VOp::Push(pp - 1), VOp::Write, VOp::Push(1), VOp::Write, VOp::Push(1), VOp::Write, VOp::Reimport, VOp::Truncate(pp), VOp::Write, VOp::Push(2), VOp::Write, VOp::Reimport], cfg.clone()));
        out.push((vec![VOp::Push(pp + 1), VOp::Write, VOp::Truncate(pp - 1), VOp::Push(3), VOp::Write, VOp::Truncate(1), VOp::Write, VOp::Reimport, VOp::Push(2 * pp), VOp::Flush, VOp::Reimport], cfg.clone()));
        out.push((vec![VOp::Push(1), VOp::Write, VOp::Push(1), VOp::Write, VOp::Push(pp - 3), VOp::Write, VOp::Push(1), VOp::Write, VOp::Push(pp), VOp::Write, VOp::Truncate(pp + 1), VOp::Write, VOp::Reimport], cfg.clone()));
    }
    out
}

/// All (fill, push, truncate) triples with each component in {0,1,2, pp-2..pp+2, 2pp-2..2pp+2}:
/// fill+write, push+write, truncate(+write), push 1 + write, re-import.
fn boundary_triples(pp: usize) -> Vec<Vec<VOp>> {
    let mut pts = vec![0usize, 1, 2];
    for c in [pp, 2 * pp] {
        pts.extend([c - 2, c - 1, c, c + 1, c + 2]);
    }
    let mut out = vec![];
    for &fill in &pts {
        for &push in &pts {
            for &trunc in &pts {
                let mut ops = vec![];
                if fill > 0 {
                    ops.push(VOp::Push(fill));
                }
                ops.push(VOp::Write);
                if push > 0 {
                    ops.push(VOp::Push(push));
                }
                ops.push(VOp::Write);
                ops.push(VOp::Truncate(trunc));
                ops.push(VOp::Write);
                ops.push(VOp::Push(1));
                ops.push(VOp::Write);
                ops.push(VOp::Reimport);
                out.push(ops);
            }
        }
    }
    out
}

pub fn check_c07(ctx: &Ctx) -> i32 {
    let report = Report::new("C07");
    let make = |rng: &mut Rng, name: &'static str| {
        if !is_compressed_runner(name) {
            return None;
        }
        Some(HistCfg {
            nops: rng.range(15, 70),
            forced: rng.chance(1, 4),
            big_pushes: true,
            allow_reset: rng.chance(1, 3),
            check_pages: true,
            ..HistCfg::default()
        })
    };
    // exhaustive boundary triples for u64 on the three codecs (and u8/u16 for the larger page
    // capacities in the thorough tier)
    let mut triples_run = 0u64;
    let mut triple_sets: Vec<(&'static str, Runner, usize)> = vec![
        ("Pco<u64>", run_vec_history::<PcoVec<usize, u64>> as Runner, 2048),
        ("LZ4<u64>", run_vec_history::<LZ4Vec<usize, u64>> as Runner, 2048),
        ("Zstd<u64>", run_vec_history::<ZstdVec<usize, u64>> as Runner, 2048),
    ];
    if ctx.tier == crate::common::Tier::Thorough {
        triple_sets.push(("Pco<f32>", run_vec_history::<PcoVec<usize, f32>> as Runner, 4096));
        triple_sets.push(("LZ4<[u8;16]>", run_vec_history::<LZ4Vec<usize, [u8; 16]>> as Runner, 1024));
        triple_sets.push(("Zstd<[u8;33]>", run_vec_history::<ZstdVec<usize, [u8; 33]>> as Runner, 496));
        triple_sets.push(("Pco<u16>", run_vec_history::<PcoVec<usize, u16>> as Runner, 8192));
    }
    let cfg0 = HistCfg { check_pages: true, ..HistCfg::default() };
    let mut triple_stats = Counter::default();
    if crate::common::reduced() {
        triple_sets.truncate(1);
    }
    for (name, runner, pp) in &triple_sets {
        let all = boundary_triples(*pp);
        let n = all.len();
        let results = run_shards(ctx.threads, |shard| {
            let mut outs = vec![];
            for (k, ops) in all.iter().enumerate() {
                if k % ctx.threads != shard {
                    continue;
                }
                let mut c = cfg0.clone();
                c.fixed_ops = Some(ops.clone());
                let mut rng = Rng::new(1);
                let o = runner(&mut rng, &c);
                outs.push((k, o));
            }
            outs
        });
        for outs in results {
            for (k, o) in outs {
                triples_run += 1;
                triple_stats.merge(&o.stats);
                if let Some((at, m)) = o.failed_at {
                    report.violation(
                        ctx,
                        Violation {
                            sig: format!("C07|compressed|{}", m.sig),
                            what: format!("{name}: {}", m.what),
                            detail: json!({"vector": name, "keep": 0, "forced_import": false, "origin": {"boundary_triple": k}, "failed_at_op": at, "shrunk_ops": vops_json(&o.ops[..=at.min(o.ops.len() - 1)]), "mismatch": m.what}),
                        },
                    );
                }
            }
        }
        triple_stats.add(&format!("triples:{name}"), n as u64);
    }
    let c = vec_campaign(ctx, &report, ctx.secs(25.0, 300.0), 7, "C07", &make, &directed_c07());
    let mut stats = c.stats.clone();
    stats.merge(&triple_stats);
    for f in ["Pco", "LZ4", "Zstd"] {
        for r in ["fast_raw_append", "partial_reencode", "fresh_pages", "boundary_truncate", "truncate_into_page", "raw_to_compressed_transition"] {
            if stats.get(&format!("regime:{f}:{r}")) == 0 {
                report.inconclusive(format!("required write regime not reached: {f}:{r}"));
            }
        }
    }
    if stats.get("pages:index_checked") == 0 {
        report.harness_error("the on-disk page index was never parsed");
    }
    let coverage = json!({
        "evaluations": c.histories + triples_run,
        "distinct_nontrivial": c.nontrivial.len() as u64 + triples_run,
        "rule": "one evaluation = one history on one compressed vector (Pco/LZ4/Zstd x element type); after every operation all values are compared bit-exactly (to_bits for floats: NaN payloads, +-0, subnormals, MIN/MAX) with the reference list, and after every write()/flush/commit/re-import the `<name>_pages` region is read through rawdb and parsed independently: gap-free from the header, every page but the last full and compressed, only the last possibly raw, counts add up to the stored length, data region ends where the last page ends. Boundary triples (fill, push, truncate in {0,1,2,pp-2..pp+2,2pp-2..2pp+2}) are enumerated completely and are all distinct; random histories count as non-trivial with >=4 op kinds and >=2 classified writes",
        "samples": c.samples,
        "exhaustive_subspace": {"boundary_triples_per_vector": 13 * 13 * 13, "vectors": triple_sets.iter().map(|t| t.0).collect::<Vec<_>>(), "triples_run": triples_run},
        "operations_executed": c.ops_total,
        "page_index_snapshots_parsed": stats.get("pages:index_checked"),
        "write_regimes": regimes_json(&stats),
        "ops_by_kind": ops_by_kind(&stats),
        "histories_per_vector_type": c.per_label.to_json(),
    });
    report.finish(ctx, "exploration", coverage, &["vectors up to ~6 pages; value sequences generated (extremes and every special float class included), not exhaustive"])
}

// ---------------------------------------------------------------------------------------------
// C08: every read path agrees with the reference contents; C20: no read leaves the region
// ---------------------------------------------------------------------------------------------

fn api_json(c: &Counter, prefix: &str) -> Value {
    Value::Object(c.0.iter().filter(|(k, _)| k.starts_with(prefix)).map(|(k, v)| (k[prefix.len()..].to_string(), json!(v))).collect())
}

pub fn directed_c08() -> Vec<(Vec<VOp>, HistCfg)> {
    let p = ProbeCfg { every: 1, pairs: 16, access: true, values: true };
    let cfg = HistCfg { probe: Some(p.clone()), ..HistCfg::default() };
    let rb = HistCfg { probe: Some(p), rollback: true, keep: 4, allow_reset: false, ..HistCfg::default() };
    vec![
        (vec![VOp::Push(3000), VOp::Write, VOp::Push(10), VOp::Truncate(2500), VOp::Push(4), VOp::Write, VOp::Truncate(10), VOp::Reimport], cfg.clone()),
        (vec![VOp::Push(40), VOp::Write, VOp::Delete(3), VOp::Delete(39), VOp::Update(7), VOp::Push(5), VOp::Delete(42), VOp::Take(0), VOp::Write, VOp::Fill, VOp::Reimport], cfg.clone()),
        (vec![VOp::Push(10), VOp::Commit(1), VOp::Truncate(5), VOp::Commit(2), VOp::Rollback, VOp::Push(3), VOp::Commit(2), VOp::Rollback, VOp::Rollback], rb.clone()),
        (vec![VOp::Push(5000), VOp::Commit(1), VOp::Update(100), VOp::Delete(4999), VOp::Commit(2), VOp::Truncate(2048), VOp::Commit(3), VOp::RollbackBefore(2), VOp::Push(1)], rb),
    ]
}

/// Scans longer than one refill of the file-IO source's 512 KiB buffer (and, for compressed
/// formats, more compressed bytes than one refill holds): one big vector per selected (format,
/// element type), including element sizes that are not a power of two, probed with the whole
/// read-API grid. Runs in parallel; returns (histories, operations, statistics).
fn big_scan(ctx: &Ctx, report: &Report, tag: u64, sig_prefix: &str, values: bool, access: bool) -> (u64, u64, Counter) {
    let want = ["Bytes<[u8;3]>", "ZeroCopy<[u8;3]>", "Bytes<u64>", "LZ4<u64>", "Pco<u64>", "Zstd<u16>", "LZ4<u8>"];
    let rs: Vec<(&'static str, Runner)> = runners().into_iter().filter(|(n, _)| want.contains(n)).collect();
    let n = if crate::common::reduced() { 3 } else { rs.len() };
    let outs = run_shards(n, |i| {
        let (name, runner) = rs[i];
        // > 512 KiB of element bytes for every selected type (u8: 600 000 elements)
        let big = match name {
            "LZ4<u8>" => 600_000,
            "Zstd<u16>" => 300_000,
            "Bytes<u64>" => 70_000,
            _ => 180_000,
        };
        let cfg = HistCfg {
            fixed_ops: Some(vec![VOp::Push(big), VOp::Write, VOp::Push(5)]),
            probe: Some(ProbeCfg { every: 1, pairs: 3, access, values }),
            ..HistCfg::default()
        };
        let mut rng = Rng::derive(ctx.seed, &[tag, 424242, i as u64]);
        let t0 = std::time::Instant::now();
        let o = runner(&mut rng, &cfg);
        if std::env::var("VERIF_DEBUG").is_ok() {
            eprintln!("big_scan {name}: {:.1}s", t0.elapsed().as_secs_f64());
        }
        (o, name)
    });
    let mut stats = Counter::default();
    let (mut h, mut ops) = (0u64, 0u64);
    for (o, name) in outs {
        h += 1;
        ops += o.ops.len() as u64;
        stats.merge(&o.stats);
        stats.bump(&format!("big_scan:{name}"));
        if let Some((at, m)) = o.failed_at {
            let family = if o.format.contains("Bytes") || o.format.contains("ZeroCopy") { "raw" } else { "compressed" };
            report.note_failure();
            report.violation(ctx, Violation { sig: format!("{sig_prefix}|{family}|big|{}", m.sig), what: format!("{} (big vector): {}", o.label, m.what), detail: json!({"vector": o.label, "origin": "big_scan", "failed_at_op": at, "shrunk_ops": vops_json(&o.ops[..=at.min(o.ops.len().saturating_sub(1))]), "mismatch": m.what}) });
        }
    }
    (h, ops, stats)
}

fn probe_campaign(ctx: &Ctx, report: &Report, tag: u64, sig: &'static str, secs: f64, values: bool, access: bool) -> VecCampaign {
    let make = move |rng: &mut Rng, _name: &'static str| {
        let rollback = rng.chance(1, 3);
        Some(HistCfg {
            nops: rng.range(10, 50),
            rollback,
            keep: if rollback { rng.range(1, 5) as u16 } else { 0 },
            forced: rng.chance(1, 5),
            big_pushes: rng.chance(1, 2),
            allow_reset: rng.chance(1, 4),
            probe: Some(ProbeCfg { every: rng.range(1, 4), pairs: rng.range(6, 20), access, values }),
            ..HistCfg::default()
        })
    };
    let directed: Vec<(Vec<VOp>, HistCfg)> = directed_c08()
        .into_iter()
        .map(|(o, mut c)| {
            if let Some(p) = c.probe.as_mut() {
                p.values = values;
                p.access = access;
            }
            (o, c)
        })
        .collect();
    // the scan back-end is selected by a size threshold: run with the file-IO back-end forced
    // (threshold 0 / 64 bytes) and with the default
    let mut total: Option<VecCampaign> = None;
    let settings: [(usize, f64); 3] = [(0, 0.35), (64, 0.25), (usize::MAX, 0.4)];
    for (k, (crossover, share)) in settings.iter().enumerate() {
        if crate::common::reduced() && k == 1 {
            continue;
        }
        if *crossover == usize::MAX {
            vecdb::verif::reset_knobs();
        } else {
            vecdb::verif::set_mmap_crossover_bytes(*crossover);
        }
        // the big-vector scans run next to the campaign (they are few and long)
        let (c, big) = std::thread::scope(|sc| {
            let big = (k != 1).then(|| sc.spawn(|| big_scan(ctx, report, tag * 10 + k as u64, sig, values, access)));
            let c = vec_campaign(ctx, report, secs * share, tag * 10 + k as u64, sig, &make, &directed);
            (c, big.map(|h| h.join().expect("big_scan panicked (harness bug)")))
        });
        let mut c = c;
        if let Some((h, ops, st)) = big {
            c.histories += h;
            c.ops_total += ops;
            c.stats.merge(&st);
        }
        let n = c.histories;
        c.stats.add(&format!("backend:crossover={}:histories", if *crossover == usize::MAX { "default".to_string() } else { crossover.to_string() }), n);
        total = Some(match total {
            None => c,
            Some(mut t) => {
                t.histories += c.histories;
                t.nontrivial.extend(c.nontrivial);
                t.stats.merge(&c.stats);
                t.per_label.merge(&c.per_label);
                t.samples.extend(c.samples);
                t.samples.truncate(3);
                t.ops_total += c.ops_total;
                t
            }
        });
    }
    vecdb::verif::reset_knobs();
    total.unwrap()
}

pub fn check_c08(ctx: &Ctx) -> i32 {
    let report = Report::new("C08");
    let c = probe_campaign(ctx, &report, 8, "C08", ctx.secs(45.0, 420.0), true, false);
    let states = api_json(&c.stats, "probe:state:");
    for need in ["clean", "pushed", "truncated", "holes"] {
        if !c.stats.0.keys().any(|k| k.starts_with("probe:state:") && k.contains(need)) {
            report.inconclusive(format!("state class never probed: {need}"));
        }
    }
    let api_calls: u64 = c.stats.0.iter().filter(|(k, _)| k.starts_with("api:")).map(|(_, v)| *v).sum();
    if api_calls == 0 {
        report.harness_error("no read API was exercised");
    }
    let coverage = json!({
        "evaluations": c.histories,
        "distinct_nontrivial": c.nontrivial.len(),
        "rule": "one evaluation = one operation history on one (format, element type) vector during which, every 1-3 operations, every read API (collect, collect_range(_at/_dyn), collect_one, first/last, signed ranges, fold/try_fold incl. early exit, for_each*, read_into (must append), cursor next/advance/fold/get, sorted reads with duplicates and out-of-range tail, min/max/sum, VecReader get/try_get, ZeroCopy read_ref, read-only clone, boxed clone, CachedVec, fold_stored_io/mmap) is driven over a grid of (from,to) pairs (0, +-1 around the stored/buffered boundary, page boundaries, len, len+1, usize::MAX, reversed, random) and compared with the reference contents (logical view for the read-write vector, stored view for stored-only views); a panic is a violation; repeated with the file-IO scan back-end forced (crossover 0 and 64 bytes) and with the default; non-trivial = >=4 op kinds and >=2 classified writes; distinct = hash(vector type, op list)",
        "samples": c.samples,
        "operations_executed": c.ops_total,
        "read_api_calls_compared": api_calls,
        "api_calls_by_view": api_json(&c.stats, "api:"),
        "states_probed": states,
        "backends": api_json(&c.stats, "backend:"),
        "histories_per_vector_type": c.per_label.to_json(),
    });
    report.finish(ctx, "exploration", coverage, &["VecReader::get is only called in range (documented panic otherwise)", "stored-only views are compared with what the last write() stored; after a rollback and before the next write their contents are not judged (only exercised)"])
}

pub fn check_c20(ctx: &Ctx) -> i32 {
    let report = Report::new("C20");
    let c = probe_campaign(ctx, &report, 20, "C20", ctx.secs(40.0, 360.0), true, true);
    let checked = c.stats.get("access:events_checked");
    if checked == 0 {
        report.harness_error("the access tap delivered no event");
    }
    let coverage = json!({
        "evaluations": c.histories,
        "distinct_nontrivial": c.nontrivial.len(),
        "rule": "one evaluation = one operation history (C03/C04 style, incl. truncation, rollback across truncating commits, read-only clones) during which the whole read API grid is driven while an observer receives every byte range fetched from the mapping (Access) or the data file (FileRead) on behalf of the vector; each range must lie inside [start, start+len) of one of the vector's own regions (data, page index, holes) as reported by the region metadata at that moment; non-trivial/distinct as in C08",
        "samples": c.samples,
        "access_events_checked": checked,
        "events_by_site": api_json(&c.stats, "access:site:"),
        "states_probed": api_json(&c.stats, "probe:state:"),
        "backends": api_json(&c.stats, "backend:"),
        "operations_executed": c.ops_total,
    });
    report.finish(ctx, "exploration", coverage, &["a read site without a tap is invisible to this monitor (value comparison of C08 still sees it when the value is used)", "single-threaded histories"])
}

// ---------------------------------------------------------------------------------------------
// C13: a refused request has no effect (rawdb + vecdb halves)
// ---------------------------------------------------------------------------------------------

pub fn check_c13(ctx: &Ctx) -> i32 {
    let report = Report::new("C13");
    let total = ctx.secs(40.0, 360.0);
    let raw = crate::c_raw::c13_raw_campaign(ctx, &report, total * 0.45);
    let make = |rng: &mut Rng, _name: &'static str| {
        // half of the histories are commit/rollback histories (rollback without a usable record is
        // one of the refusals), the other half C03 histories with refused update / checked push /
        // import requests sprinkled in
        let rollback = rng.chance(1, 2);
        Some(HistCfg {
            nops: rng.range(20, 90),
            rollback,
            refusals: true,
            keep: if rollback { rng.range(0, 3) as u16 } else { 0 },
            forced: rng.chance(1, 4),
            big_pushes: rng.chance(1, 3),
            allow_reset: rng.chance(1, 3),
            ..HistCfg::default()
        })
    };
    let directed = vec![
        (vec![VOp::Push(5), VOp::BadUpdate(5), VOp::BadCheckedPush(4), VOp::BadCheckedPush(6), VOp::Write, VOp::BadImportVersion, VOp::BadImportFormat, VOp::Push(2), VOp::BadUpdate(9), VOp::Reimport, VOp::BadImportVersion, VOp::Push(1), VOp::Reimport], HistCfg { refusals: true, ..HistCfg::default() }),
        (vec![VOp::Push(5), VOp::Rollback, VOp::Commit(1), VOp::Rollback, VOp::Rollback, VOp::Push(3), VOp::Commit(1), VOp::Commit(2), VOp::Rollback, VOp::Rollback, VOp::Push(1), VOp::Commit(3), VOp::Reimport, VOp::Rollback, VOp::Rollback], HistCfg { refusals: true, rollback: true, keep: 1, ..HistCfg::default() }),
    ];
    let c = vec_campaign(ctx, &report, total * 0.45, 13, "C13|vec", &make, &directed);
    let refused_vec: u64 = c.stats.0.iter().filter(|(k, _)| k.starts_with("refused:")).map(|(_, v)| *v).sum();
    let refused_raw: u64 = raw.stats.0.iter().filter(|(k, _)| k.starts_with("refused:")).map(|(_, v)| *v).sum();
    if refused_vec == 0 || refused_raw == 0 {
        report.harness_error("no refused request was issued");
    }
    let mut kinds = serde_json::Map::new();
    for (k, v) in raw.stats.0.iter().chain(c.stats.0.iter()) {
        if let Some(r) = k.strip_prefix("refused:") {
            kinds.insert(r.to_string(), json!(v));
        }
    }
    let mut samples = raw.samples.clone();
    samples.extend(c.samples.clone());
    let coverage = json!({
        "evaluations": refused_vec + refused_raw,
        "distinct_nontrivial": raw.nontrivial.len() + c.nontrivial.len(),
        "rule": "one evaluation = one refused request (must return an error) issued inside an ordinary history: rawdb write_at beyond the end, truncate beyond the length, rename onto an existing name, rename/remove of a removed region, remove with a second live handle, remove_region of an unknown name; vecdb update beyond len, checked push at a wrong index, plain import with another version / as another format, rollback with no usable change record. Before and after the refused call a full snapshot is compared (rawdb: model of every region + layout walk; vecdb: start/reserved/len/content hash of every region, file length, change-directory listing, the vector's len/stored_len/stamp/holes/dirty flag/recorded version) and the history then continues under the step-wise model comparison (flush and re-open/re-import included), so later damage is seen as well. distinct_nontrivial = distinct histories (hash of the op list) containing >= 1 refusal and meeting the C01/C03 non-triviality rule",
        "samples": samples,
        "refusals_by_kind": kinds,
        "rawdb_histories": raw.histories,
        "vecdb_histories": c.histories,
        "operations_executed": raw.ops_total + c.ops_total,
        "layout_states_walked": raw.stats.get("layout:states_walked"),
    });
    report.finish(ctx, "exploration", coverage, &["refusals are issued in states reached by the C01/C03/C04 generators; I/O errors of the environment are not injected"])
}

// ---------------------------------------------------------------------------------------------
// C16: retention bound, pruning, and refusal on missing / truncated / malformed records
// ---------------------------------------------------------------------------------------------

pub fn check_c16(ctx: &Ctx) -> i32 {
    let report = Report::new("C16");
    let make = |rng: &mut Rng, name: &'static str| {
        if name.starts_with("Eager") && rng.chance(2, 3) {
            return None;
        }
        Some(HistCfg {
            nops: rng.range(12, 60),
            rollback: true,
            keep: *rng.pick(&[0u16, 1, 1, 2, 2, 3, 5]),
            allow_reset: rng.chance(1, 6),
            big_pushes: rng.chance(1, 4),
            fault_every: rng.range(3, 9),
            check_files: true,
            ..HistCfg::default()
        })
    };
    let base = HistCfg { rollback: true, allow_reset: false, check_files: true, fault_every: 1, ..HistCfg::default() };
    let directed = vec![
        // retention k: exactly min(k, commits) rollbacks
        (vec![VOp::Push(3), VOp::Commit(1), VOp::Push(3), VOp::Commit(2), VOp::Push(3), VOp::Commit(3), VOp::Push(3), VOp::Commit(4), VOp::Rollback, VOp::Rollback, VOp::Rollback, VOp::Rollback, VOp::Rollback], HistCfg { keep: 2, ..base.clone() }),
        (vec![VOp::Push(3), VOp::Commit(1), VOp::Rollback, VOp::Rollback, VOp::Push(1), VOp::Commit(5), VOp::Commit(9), VOp::RollbackBefore(0)], HistCfg { keep: 1, ..base.clone() }),
        (vec![VOp::Push(3), VOp::Commit(1), VOp::Rollback, VOp::Push(1), VOp::Commit(2)], HistCfg { keep: 0, ..base.clone() }),
        // abandoned future: re-commit a used stamp / a higher stamp after rollback
        (vec![VOp::Push(2), VOp::Commit(1), VOp::Push(2), VOp::Commit(2), VOp::Push(2), VOp::Commit(3), VOp::RollbackBefore(2), VOp::Push(1), VOp::Commit(2), VOp::Push(1), VOp::Commit(4), VOp::Rollback, VOp::Rollback, VOp::Rollback, VOp::Rollback], HistCfg { keep: 5, ..base.clone() }),
        // retention lowered between sessions: the surplus records go at the next commit
        (vec![VOp::Push(2), VOp::Commit(1), VOp::Push(2), VOp::Commit(2), VOp::Push(2), VOp::Commit(3), VOp::Push(2), VOp::Commit(4), VOp::Push(2), VOp::Commit(5), VOp::ReimportKeep(2), VOp::Push(1), VOp::Commit(6), VOp::Push(1), VOp::Commit(7), VOp::Rollback, VOp::Rollback, VOp::Rollback], HistCfg { keep: 5, ..base.clone() }),
        // records with every section populated (truncation + pushes + updates + holes)
        (vec![VOp::Push(12), VOp::Commit(1), VOp::Update(2), VOp::Delete(4), VOp::Truncate(9), VOp::Push(2), VOp::Commit(2), VOp::Fill, VOp::Update(1), VOp::Truncate(5), VOp::Push(3), VOp::Commit(3), VOp::Rollback, VOp::Rollback], HistCfg { keep: 3, ..base.clone() }),
    ];
    let c = vec_campaign(ctx, &report, ctx.secs(35.0, 330.0), 16, "C16", &make, &directed);
    let injected = c.stats.get("fault:injected");
    if injected == 0 {
        report.harness_error("no fault was injected");
    }
    if c.stats.get("files:listings_checked") == 0 {
        report.harness_error("the change directory was never listed");
    }
    let coverage = json!({
        "evaluations": injected + c.stats.get("op:rollback") + c.stats.get("op:rollback_before"),
        "distinct_nontrivial": c.nontrivial.len(),
        "rule": "one evaluation = one rollback attempt: either a rollback / rollback_before inside a commit history with retention k in {0,1,2,3,5} (the model's commit chain and record set predict Ok or refusal for each, so exactly min(k, commits) consecutive rollbacks succeed), or a rollback() on a record carrying one injected fault - record deleted; truncated at every byte offset (records <= 600 bytes: all offsets; larger: the first 200, the last 64, 10 offsets around every length field and 64 random ones); each length field (prev_stored_len, stored_len, truncated, prev_pushed_len, pushed_len, modified_len, prev_holes_len) overwritten with true+1, 2^32, 2^40, 2^63, u64::MAX - which must fail and leave regions, change directory and the vector's view byte-identical (or, if accepted, produce exactly the previous committed state); plus rollback_before(0) across a truncated older record, which must fail and rest on the committed state it had reached. After every commit the directory listing must equal the record set the retention rule allows. distinct_nontrivial = distinct histories (hash of vector type + op list) with >=4 op kinds and >=2 classified writes",
        "samples": c.samples,
        "faults_injected": injected,
        "fault_phases": c.stats.get("fault:phases"),
        "faults_by_kind": api_json(&c.stats, "fault:kind:"),
        "error_kinds_seen": api_json(&c.stats, "fault:error:"),
        "directory_listings_checked": c.stats.get("files:listings_checked"),
        "ops_by_kind": ops_by_kind(&c.stats),
        "histories": c.histories,
    });
    report.finish(ctx, "fault_enumeration", coverage, &["single-file faults only (one damaged record at a time); the file system itself is not faulted", "rollbacks are issued from committed states"])
}
