//! C14: the import decision table, evaluated exhaustively over
//! (creating entry point, re-opening entry point, stored version, requested version,
//!  stored format, requested format, auxiliary regions) plus forced-import chains and the
//! non-mismatch error cases.

use std::collections::BTreeMap;

use serde_json::{Value, json};
use vecdb::{BytesVec, Database, LZ4Vec, PcoVec, ReadableVec, Version, ZeroCopyVec, ZstdVec};

use crate::{
    common::{Counter, Ctx, Report, TempDir, Violation, catch, fnv, normalize_msg},
    vecmodel::{Elem, VecLike},
};

type Snap = BTreeMap<String, (usize, u64)>;

fn snapshot(db: &Database) -> Snap {
    let names: Vec<String> = db.regions().id_to_index().keys().cloned().collect();
    let mut out = BTreeMap::new();
    for n in names {
        if let Some(r) = db.get_region(&n) {
            let len = r.meta().len();
            out.insert(n, (len, fnv(r.create_reader().read_all())));
        }
    }
    out
}

#[derive(Debug, Clone, PartialEq)]
enum Got {
    /// dense contents (keys), deleted slots, stored length, stamp
    Vec { keys: Vec<u128>, holes: Vec<usize>, len: usize, stamp: u64 },
    Err(String),
    Panic(String),
}

fn err_class(e: &vecdb::Error) -> String {
    match e {
        vecdb::Error::DifferentVersion { .. } => "DifferentVersion".into(),
        vecdb::Error::DifferentFormat { .. } => "DifferentFormat".into(),
        vecdb::Error::WrongLength { .. } => "WrongLength".into(),
        vecdb::Error::CorruptedRegion { .. } => "CorruptedRegion".into(),
        vecdb::Error::InvalidFormat(_) => "InvalidFormat".into(),
        vecdb::Error::WrongEndian => "WrongEndian".into(),
        other => format!("other:{}", normalize_msg(&other.to_string())),
    }
}

/// 0 = values as described below, 1 = the vector is created and stamped but never holds a value
/// (its data region is exactly one header), 2 = it held 40 values and was truncated to nothing
/// before the stamped write. Read by `create` (the table is evaluated on one thread).
static EMPTY_MODE: std::sync::atomic::AtomicU8 = std::sync::atomic::AtomicU8::new(0);

const N_VALUES: usize = 2500; // > one page of u64 (2048) so that compressed vectors have 2 pages

/// Creates vector "v" in `db` through the chosen entry point, fills it, optionally deletes slots
/// (raw formats: creates the holes region), flushes everything and drops the vector.
fn create<V: VecLike>(db: &Database, forced: bool, version: u32, aux: bool) -> Result<Vec<u128>, String> {
    let r = catch(|| -> vecdb::Result<Vec<u128>> {
        // both arities of each entry point are exercised: the options form for the large
        // vectors, the three-argument form for the small ones
        let mut v = match (forced, aux) {
            (true, true) => V::v_forced_import(db, "v", Version::new(version), 0)?,
            (false, true) => V::v_import(db, "v", Version::new(version), 0)?,
            (true, false) => V::v_forced_import3(db, "v", Version::new(version))?,
            (false, false) => V::v_import3(db, "v", Version::new(version))?,
        };
        let mode = EMPTY_MODE.load(std::sync::atomic::Ordering::Relaxed);
        let n = if mode == 1 { 0 } else if aux { N_VALUES } else { 40 };
        for i in 0..n {
            v.v_push(<V::E as Elem>::make(1000 + i as u64));
        }
        if mode == 2 {
            v.v_stamped_write(3)?;
            v.v_truncate(0)?;
        }
        v.v_stamped_write(7)?;
        if aux && V::RAW {
            v.v_delete(3);
            v.v_delete(n - 1);
        }
        v.v_flush()?;
        db.flush()?;
        let keys = ReadableVec::collect(&v).iter().map(|x| x.key()).collect();
        Ok(keys)
    });
    match r {
        Ok(Ok(k)) => Ok(k),
        Ok(Err(e)) => Err(format!("create failed: {e}")),
        Err(p) => Err(format!("create panicked: {p}")),
    }
}

fn reopen<V: VecLike>(db: &Database, forced: bool, version: u32, with_options: bool) -> Got {
    let r = catch(|| -> vecdb::Result<Got> {
        let v = match (forced, with_options) {
            (true, true) => V::v_forced_import(db, "v", Version::new(version), 0)?,
            (false, true) => V::v_import(db, "v", Version::new(version), 0)?,
            (true, false) => V::v_forced_import3(db, "v", Version::new(version))?,
            (false, false) => V::v_import3(db, "v", Version::new(version))?,
        };
        Ok(Got::Vec {
            keys: ReadableVec::collect(&v).iter().map(|x| x.key()).collect(),
            holes: v.v_holes(),
            len: v.v_len(),
            stamp: v.v_stamp(),
        })
    });
    match r {
        Ok(Ok(g)) => g,
        Ok(Err(e)) => Got::Err(err_class(&e)),
        Err(p) => Got::Panic(p),
    }
}

/// Re-opened vector is usable: push, flush, re-import through the same entry point.
fn usable<V: VecLike>(db: &Database, forced: bool, version: u32, expect_prefix: usize) -> Result<(), String> {
    let r = catch(|| -> vecdb::Result<Result<(), String>> {
        let mut v = if forced { V::v_forced_import(db, "v", Version::new(version), 0)? } else { V::v_import(db, "v", Version::new(version), 0)? };
        let a = <V::E as Elem>::make(5);
        let b = <V::E as Elem>::make(6);
        v.v_push(a);
        v.v_push(b);
        v.v_flush()?;
        db.flush()?;
        drop(v);
        let v = if forced { V::v_forced_import(db, "v", Version::new(version), 0)? } else { V::v_import(db, "v", Version::new(version), 0)? };
        let got = ReadableVec::collect(&v);
        if v.v_len() < 2 || got.len() != expect_prefix + 2 || got[got.len() - 2].key() != a.key() || got[got.len() - 1].key() != b.key() {
            return Ok(Err(format!("after push 2 + flush + re-import the vector has {} elements (expected {})", got.len(), expect_prefix + 2)));
        }
        Ok(Ok(()))
    });
    match r {
        Ok(Ok(x)) => x,
        Ok(Err(e)) => Err(format!("continuation failed: {e}")),
        Err(p) => Err(format!("continuation panicked: {p}")),
    }
}

struct Fmt {
    name: &'static str,
    /// on-disk format (wrappers share the format of what they wrap)
    disk: &'static str,
    create: fn(&Database, bool, u32, bool) -> Result<Vec<u128>, String>,
    reopen: fn(&Database, bool, u32, bool) -> Got,
    usable: fn(&Database, bool, u32, usize) -> Result<(), String>,
    raw: bool,
}

macro_rules! fmt {
    ($name:expr, $t:ty) => {
        Fmt { name: $name, disk: $name, create: create::<$t>, reopen: reopen::<$t>, usable: usable::<$t>, raw: <$t as VecLike>::RAW }
    };
}

fn formats_u64() -> Vec<Fmt> {
    vec![
        fmt!("Bytes", BytesVec<usize, u64>),
        fmt!("ZeroCopy", ZeroCopyVec<usize, u64>),
        fmt!("Pco", PcoVec<usize, u64>),
        fmt!("LZ4", LZ4Vec<usize, u64>),
        fmt!("Zstd", ZstdVec<usize, u64>),
        Fmt { name: "Eager<Bytes>", disk: "Bytes", create: create::<vecdb::EagerVec<BytesVec<usize, u64>>>, reopen: reopen::<vecdb::EagerVec<BytesVec<usize, u64>>>, usable: usable::<vecdb::EagerVec<BytesVec<usize, u64>>>, raw: false },
    ]
}

fn formats_u32() -> Vec<Fmt> {
    vec![
        fmt!("Bytes", BytesVec<usize, u32>),
        fmt!("ZeroCopy", ZeroCopyVec<usize, u32>),
        fmt!("Pco", PcoVec<usize, u32>),
        fmt!("LZ4", LZ4Vec<usize, u32>),
        fmt!("Zstd", ZstdVec<usize, u32>),
        Fmt { name: "Eager<Pco>", disk: "Pco", create: create::<vecdb::EagerVec<PcoVec<usize, u32>>>, reopen: reopen::<vecdb::EagerVec<PcoVec<usize, u32>>>, usable: usable::<vecdb::EagerVec<PcoVec<usize, u32>>>, raw: false },
    ]
}

fn entry(forced: bool) -> &'static str {
    if forced { "forced_import" } else { "import" }
}

pub fn check_c14(ctx: &Ctx) -> i32 {
    let report = Report::new("C14");
    let mut stats = Counter::default();
    let mut cells = 0u64;
    let mut samples: Vec<Value> = vec![];
    let mut violate = |sig: String, what: String, detail: Value| {
        report.violation(ctx, Violation { sig, what, detail });
    };

    let elem_sets: Vec<(&str, Vec<Fmt>)> = match ctx.tier {
        crate::common::Tier::Quick => vec![("u64", formats_u64())],
        crate::common::Tier::Thorough => vec![("u64", formats_u64()), ("u32", formats_u32())],
    };

    for (elem, fmts) in &elem_sets {
        // ---- the decision table ----------------------------------------------------------
        for sf in fmts {
            for rf in fmts {
                for create_forced in [false, true] {
                    for reopen_forced in [false, true] {
                        for stored_v in [1u32, 2] {
                            for req_v in [1u32, 2] {
                                for (aux, empty_mode) in [(false, 0u8), (true, 0), (false, 1), (false, 2)] {
                                    EMPTY_MODE.store(empty_mode, std::sync::atomic::Ordering::Relaxed);
                                    cells += 1;
                                    let tmp = TempDir::new("imp");
                                    let db = Database::open(tmp.path()).expect("open");
                                    let cell = json!({"element": elem, "stored_format": sf.name, "requested_format": rf.name, "created_with": entry(create_forced), "reopened_with": entry(reopen_forced), "stored_version": stored_v, "requested_version": req_v, "aux_regions": aux, "contents": (["values", "never any value (header-only data region)", "emptied by truncation"][empty_mode as usize])});
                                    let keys = match (sf.create)(&db, create_forced, stored_v, aux) {
                                        Ok(k) => k,
                                        Err(e) => {
                                            violate("C14|setup".into(), e, cell);
                                            continue;
                                        }
                                    };
                                    let before = snapshot(&db);
                                    let matching = sf.disk == rf.disk && stored_v == req_v;
                                    let got = (rf.reopen)(&db, reopen_forced, req_v, aux);
                                    let after = snapshot(&db);
                                    let class = if matching { "match" } else if sf.disk != rf.disk && stored_v != req_v { "both-differ" } else if sf.disk != rf.disk { "format-differs" } else { "version-differs" };
                                    stats.bump(&format!("cell:{class}:{}", entry(reopen_forced)));
                                    if samples.len() < 4 && cells % 97 == 5 {
                                        samples.push(json!({"cell": cell, "outcome": format!("{:?}", match &got { Got::Vec { len, holes, .. } => format!("Ok(len={len}, holes={})", holes.len()), Got::Err(e) => format!("Err({e})"), Got::Panic(p) => format!("panic {p}") })}));
                                    }
                                    let bad = |why: &str| (format!("C14|{class}|{}|{}", entry(reopen_forced), why), format!("{why}: stored {}(v{stored_v}, created with {}) re-opened as {}(v{req_v}) with {} -> {}", sf.name, entry(create_forced), rf.name, entry(reopen_forced), match &got { Got::Vec { len, holes, .. } => format!("Ok(len {len}, {} holes)", holes.len()), Got::Err(e) => format!("Err({e})"), Got::Panic(p) => format!("panic: {p}") }));
                                    let verdict: Option<(String, String)> = match (&got, matching, reopen_forced) {
                                        (Got::Panic(_), _, _) => Some(bad("import panicked")),
                                        (Got::Vec { keys: k, holes, stamp, .. }, true, _) => {
                                            let want_holes: Vec<usize> = if aux && sf.raw && rf.raw { vec![3, N_VALUES - 1] } else { vec![] }; // wrappers do not expose deleted slots
                                            if *k != keys || *holes != want_holes || *stamp != 7 {
                                                Some(bad("matching import returned other contents than were stored"))
                                            } else if after != before {
                                                Some(bad("matching import modified the regions"))
                                            } else {
                                                None
                                            }
                                        }
                                        (Got::Err(_), true, _) => Some(bad("version and format match but the import failed")),
                                        (Got::Err(e), false, false) => {
                                            if e != "DifferentVersion" && e != "DifferentFormat" {
                                                Some(bad("plain import of mismatching data failed with another error class"))
                                            } else if after != before {
                                                Some(bad("refused plain import modified the regions"))
                                            } else {
                                                None
                                            }
                                        }
                                        (Got::Vec { .. }, false, false) => Some(bad("plain import accepted mismatching data")),
                                        (Got::Vec { keys: k, holes, len, stamp }, false, true) => {
                                            if !k.is_empty() || !holes.is_empty() || *len != 0 || *stamp != 0 {
                                                Some(bad("forced import of mismatching data did not return an empty vector"))
                                            } else {
                                                None
                                            }
                                        }
                                        (Got::Err(_), false, true) => Some(bad("forced import of mismatching data failed")),
                                    };
                                    if let Some((sig, what)) = verdict {
                                        violate(sig, what, cell.clone());
                                        continue;
                                    }
                                    // continuation: the re-opened vector works (for refused plain imports:
                                    // the stored vector still works through its own format)
                                    let cont = match (&got, matching || reopen_forced) {
                                        (Got::Vec { keys: k, .. }, true) => (rf.usable)(&db, reopen_forced, req_v, k.len()),
                                        _ => (sf.usable)(&db, create_forced, stored_v, keys.len()),
                                    };
                                    if let Err(e) = cont {
                                        violate(format!("C14|{class}|{}|continuation", entry(reopen_forced)), format!("{e} (stored {} v{stored_v}, re-opened as {} v{req_v} with {})", sf.name, rf.name, entry(reopen_forced)), cell);
                                    }
                                }
                            }
                        }
                    }
                }
            }
        }

        EMPTY_MODE.store(0, std::sync::atomic::Ordering::Relaxed);
        // ---- forced-import chains f1 -> f2 -> f3 (auxiliary regions of an older format must
        //      never leak into a later vector) ---------------------------------------------
        for f1 in fmts {
            for f2 in fmts {
                for f3 in fmts {
                    cells += 1;
                    stats.bump("cell:forced-chain");
                    let tmp = TempDir::new("imp");
                    let db = Database::open(tmp.path()).expect("open");
                    let cell = json!({"element": elem, "chain": [f1.name, f2.name, f3.name]});
                    let keys1 = match (f1.create)(&db, true, 1, true) {
                        Ok(k) => k,
                        Err(e) => {
                            violate("C14|setup".into(), e, cell);
                            continue;
                        }
                    };
                    let g2 = (f2.reopen)(&db, true, 1, true);
                    let same12 = f1.disk == f2.disk;
                    let ok2 = match &g2 {
                        Got::Vec { keys, len, holes, .. } => if same12 { *keys == keys1 } else { keys.is_empty() && *len == 0 && holes.is_empty() },
                        _ => false,
                    };
                    if !ok2 {
                        violate(format!("C14|forced-chain|step2|{}", if same12 { "match" } else { "mismatch" }), format!("forced chain {} -> {}: second import gave {:?}", f1.name, f2.name, short(&g2)), cell);
                        continue;
                    }
                    // if the second import discarded, put a few values in so that the third step has data
                    let stored2: usize = if same12 { keys1.len() } else {
                        if let Err(e) = (f2.usable)(&db, true, 1, 0) {
                            violate("C14|forced-chain|step2|continuation".into(), format!("forced chain {} -> {}: {e}", f1.name, f2.name), cell);
                            continue;
                        }
                        2
                    };
                    let g3 = (f3.reopen)(&db, true, 1, false);
                    let same23 = f2.disk == f3.disk;
                    let ok3 = match &g3 {
                        Got::Vec { keys, len, holes, .. } => if same23 { keys.len() == stored2 } else { keys.is_empty() && *len == 0 && holes.is_empty() },
                        _ => false,
                    };
                    if !ok3 {
                        violate(format!("C14|forced-chain|step3|{}", if same23 { "match" } else { "mismatch" }), format!("forced chain {} -> {} -> {}: third import gave {} (an auxiliary region of an earlier format leaked?)", f1.name, f2.name, f3.name, short(&g3)), cell);
                        continue;
                    }
                    if let Err(e) = (f3.usable)(&db, true, 1, if same23 { stored2 } else { 0 }) {
                        violate("C14|forced-chain|step3|continuation".into(), format!("forced chain {} -> {} -> {}: {e}", f1.name, f2.name, f3.name), cell);
                    }
                }
            }
        }

        // ---- non-mismatch errors: never discard ---------------------------------------------
        for f in fmts {
            for forced in [false, true] {
                for case in ["odd-data-length", "short-region", "bad-format-byte"] {
                    cells += 1;
                    stats.bump(&format!("cell:damaged:{case}"));
                    let tmp = TempDir::new("imp");
                    let db = Database::open(tmp.path()).expect("open");
                    let cell = json!({"element": elem, "format": f.name, "entry": entry(forced), "damage": case});
                    if let Err(e) = (f.create)(&db, forced, 1, false) {
                        violate("C14|setup".into(), e, cell);
                        continue;
                    }
                    let region = db.get_region("v/usize").expect("data region");
                    match case {
                        "odd-data-length" => {
                            if !f.raw {
                                continue; // only the raw formats define this error
                            }
                            region.write(&[1, 2, 3]).unwrap();
                        }
                        "short-region" => region.truncate(5).unwrap(),
                        _ => region.write_at(&[0xEE], 20).unwrap(),
                    }
                    db.flush().unwrap();
                    drop(region); // a live handle would make a (wrongful) discard fail and hide it
                    let before = snapshot(&db);
                    let got = (f.reopen)(&db, forced, 1, case != "short-region");
                    let after = snapshot(&db);
                    let verdict = match (case, &got) {
                        (_, Got::Panic(p)) => Some(format!("import panicked: {p}")),
                        // version and format match, the error is not a mismatch: must be reported, nothing discarded
                        ("odd-data-length", Got::Err(_)) if after == before => None,
                        ("odd-data-length", _) => Some(format!("data length is not a multiple of the element size (version and format match): expected an error and untouched regions, got {}", short(&got))),
                        // unreadable header: plain import must refuse and leave the regions alone; forced may discard
                        (_, Got::Err(_)) if after == before => None,
                        (_, Got::Vec { len: 0, .. }) if forced => None,
                        (_, g) => Some(format!("unreadable stored header ({case}): got {} (regions {})", short(g), if after == before { "unchanged" } else { "changed" })),
                    };
                    if let Some(what) = verdict {
                        violate(format!("C14|damaged|{case}|{}", entry(forced)), format!("{} via {}: {what}", f.name, entry(forced)), cell);
                    }
                }
            }
        }
    }

    let coverage = json!({
        "evaluations": cells,
        "distinct_nontrivial": cells,
        "exhaustive": true,
        "rule": "one evaluation = one cell of the import decision table, executed on a fresh database: (element type) x (stored format x requested format over Bytes/ZeroCopy/Pco/LZ4/Zstd) x (created with import|forced_import) x (re-opened with import|forced_import) x (stored version 1|2) x (requested version 1|2) x (small vector | multi-page vector with deleted slots (raw: holes region; compressed: 2-page index) | vector that never held a value (data region = one header) | vector emptied by truncation); plus all forced-import chains f1->f2->f3 (125 per element type) and damaged-header / odd-length cases per format and entry point. Expected outcome per cell: match -> stored contents, deleted slots and stamp returned and regions untouched; mismatch + import -> DifferentVersion/DifferentFormat and all regions byte-identical; mismatch + forced_import -> empty vector (len 0, no deleted slots, stamp 0); afterwards the vector that is now stored must accept push + flush + re-import. All cells are distinct by construction and the table is enumerated completely.",
        "samples": samples,
        "cells_by_class": stats.to_json(),
    });
    report.finish(ctx, "exploration", coverage, &["lock / I/O errors cannot occur at import time on an open database (a locked directory fails in Database::open, C18); element type is kept equal between the stored and the requested vector"])
}

fn short(g: &Got) -> String {
    match g {
        Got::Vec { keys, holes, len, stamp } => format!("Ok(len {len}, {} elements, {} holes, stamp {stamp})", keys.len(), holes.len()),
        Got::Err(e) => format!("Err({e})"),
        Got::Panic(p) => format!("panic: {p}"),
    }
}
