//! C09 / C10 / C11 / C12(concurrent): scenarios run under the controlled scheduler (sched.rs).

use std::{
    collections::{BTreeMap, BTreeSet},
    process::{Command, Stdio},
    sync::{Arc, Mutex},
};

use rawdb::{Database, Region};
use serde_json::{Value, json};
use vecdb::{AnyStoredVec, AnyVec, BytesVec, ImportableVec, LZ4Vec, PcoVec, ReadableVec, StoredVec, Version, WritableVec, ZstdVec};

use crate::{
    common::{Counter, Ctx, Report, Rng, TempDir, Tier, Violation, fnv, normalize_msg},
    rawmodel::{check_layout, payload},
    sched::{self, Deadlock, Job, OnDeadlock, Policy, RunEnd, Step},
};

pub struct Scn {
    pub tmp: TempDir,
    pub jobs: Vec<(String, Job)>,
    pub check: Box<dyn FnOnce(&[sched::PunchRec]) -> Result<(), String>>,
}

type Obs = Arc<Mutex<Vec<String>>>;

fn val(i: usize) -> u64 {
    (i as u64) * 7 + 3
}

// ---------------------------------------------------------------------------------------------
// C09 scenarios: one write() in a chosen regime x one reader operation x format
// ---------------------------------------------------------------------------------------------

trait V9: StoredVec<I = usize, T = u64> + Send + 'static
where
    Self::ReadOnly: Send,
{
    const F: &'static str;
    fn point_get(_ro: &Self::ReadOnly, _i: usize) -> Option<Option<u64>> {
        None
    }
}
impl V9 for BytesVec<usize, u64> {
    const F: &'static str = "Bytes";
    fn point_get(ro: &Self::ReadOnly, _i: usize) -> Option<Option<u64>> {
        // the point reader's own length decides which element is read
        let r = ro.reader();
        let n = r.len();
        if n == 0 {
            return Some(Some(u64::MAX));
        }
        Some(r.try_get(n - 1).map(|x| if x == val(n - 1) { u64::MAX } else { x }))
    }
}
impl V9 for PcoVec<usize, u64> {
    const F: &'static str = "Pco";
}
impl V9 for LZ4Vec<usize, u64> {
    const F: &'static str = "LZ4";
}
impl V9 for ZstdVec<usize, u64> {
    const F: &'static str = "Zstd";
}

/// (stored, pushed) per write regime.
fn c09_regimes(compressed: bool) -> Vec<(&'static str, usize, usize)> {
    if compressed {
        vec![
            ("fast_raw_append", 100, 20),
            ("partial_reencode", 100, 3000),
            ("fresh_pages", 2048, 500),
            ("fill_page_exactly", 2000, 48),
            ("first_write", 0, 300),
        ]
    } else {
        // grow_last_file: the vector's region is the last one in the file and the append is larger
        // than the file, so the write extends it in place and the file itself has to grow
        vec![("in_place", 100, 20), ("grow_relocate", 450, 300), ("grow_large", 100, 40_000), ("grow_last_file", 100, 300_000), ("first_write", 0, 300)]
    }
}

const C09_READS: [&str; 4] = ["range_tail", "collect_one_last", "point_reader", "fold_all"];

fn c09_build<V: V9>(regime: &str, read: &str) -> Option<Scn>
where
    V::ReadOnly: Send,
{
    if regime == "scan_across_reuse" {
        return c09_scan_reuse::<V>();
    }
    let compressed = V::F != "Bytes";
    let (_, stored, pushed) = *c09_regimes(compressed).iter().find(|r| r.0 == regime)?;
    let tmp = TempDir::new("c09");
    let db = Database::open(tmp.path()).ok()?;
    let mut v: V = V::forced_import(&db, "v", Version::new(1)).ok()?;
    for i in 0..stored {
        v.push(val(i));
    }
    v.write().ok()?;
    // a second region right behind the vector's so that growth has to relocate
    if regime != "grow_last_file" {
        let other = db.create_region_if_needed("other").ok()?;
        other.write(&[0xAB; 100]).ok()?;
    }
    for i in stored..stored + pushed {
        v.push(val(i));
    }
    let ro = v.read_only_clone();
    let obs: Obs = Arc::new(Mutex::new(vec![]));
    let o2 = obs.clone();
    let read = read.to_string();
    let total = stored + pushed;
    let writer: Job = Box::new(move || {
        let mut v = v;
        v.write().expect("write");
        drop(v);
    });
    let reader: Job = Box::new(move || {
        let mut last_len = 0usize;
        for round in 0..2 {
            let len = ro.len();
            let mut bad = |what: String| o2.lock().unwrap().push(what);
            if len < last_len {
                bad(format!("length-regressed:: observed length went from {last_len} to {len}"));
            }
            if len != stored && len != total && !(len > stored && len <= total) {
                bad(format!("impossible-length:: observed length {len} (stored {stored}, after the write {total})"));
            }
            last_len = len;
            match read.as_str() {
                "range_tail" => {
                    let from = len.saturating_sub(24);
                    let got = ro.collect_range_at(from, len);
                    if got.len() != len - from {
                        bad(format!("short-read:: round {round}: length {len} observed but collect_range_at({from},{len}) returned {} elements", got.len()));
                    }
                    for (k, x) in got.iter().enumerate() {
                        if *x != val(from + k) {
                            bad(format!("wrong-element:: round {round}: element {} read as {x} but {} was pushed there (length observed: {len})", from + k, val(from + k)));
                            break;
                        }
                    }
                }
                "collect_one_last" => {
                    if len > 0 {
                        match ro.collect_one_at(len - 1) {
                            Some(x) if x == val(len - 1) => {}
                            other => bad(format!("wrong-element:: round {round}: length {len} observed but element {} read as {other:?}", len - 1)),
                        }
                    }
                }
                "point_reader" => {
                    // u64::MAX encodes "the last element below the reader's own length is the pushed one"
                    if let Some(got) = V::point_get(&ro, 0)
                        && got != Some(u64::MAX)
                    {
                        bad(format!("wrong-element:: round {round}: the point reader returned {got:?} for the last element below its own length"));
                    }
                }
                _ => {
                    let mut i = 0usize;
                    let mut first_bad = None;
                    let n = ro.fold_range_at(0, len, 0usize, |n, x| {
                        if x != val(i) && first_bad.is_none() {
                            first_bad = Some((i, x));
                        }
                        i += 1;
                        n + 1
                    });
                    if n != len {
                        bad(format!("short-read:: round {round}: length {len} observed but a fold over 0..{len} visited {n} elements"));
                    }
                    if let Some((i, x)) = first_bad {
                        bad(format!("wrong-element:: round {round}: element {i} read as {x} but {} was pushed there (length observed: {len})", val(i)));
                    }
                }
            }
        }
    });
    let check = Box::new(move |_punches: &[sched::PunchRec]| {
        let o = obs.lock().unwrap();
        let _keep = &db;
        if let Some(first) = o.first() { Err(first.clone()) } else { Ok(()) }
    });
    Some(Scn { tmp, jobs: vec![("writer".into(), writer), ("reader".into(), reader)], check })
}

/// A scan through the file-IO back-end (which reads the data file through its own handle and
/// refills a 512 KiB buffer) while the writer's write() relocates the vector's region, two
/// flushes make the old extent reusable and another region is created and written there. Every
/// element the scan delivers must still be the one pushed at that index.
fn c09_scan_reuse<V: V9>() -> Option<Scn>
where
    V::ReadOnly: Send,
{
    let big = |i: usize| crate::common::mix64(0x5ca9, i as u64);
    const STORED: usize = 70_000; // 560 000 bytes of incompressible values: more than one refill, reserve 1 MiB
    const PUSHED: usize = 70_000; // the write outgrows the reserve: relocation (a region sits right behind)
    let tmp = TempDir::new("c09s");
    let db = Database::open(tmp.path()).ok()?;
    let mut v: V = V::forced_import(&db, "v", Version::new(1)).ok()?;
    for i in 0..STORED {
        v.push(big(i));
    }
    v.write().ok()?;
    let other = db.create_region_if_needed("other").ok()?;
    other.write(&[0xAB; 100]).ok()?;
    db.flush().ok()?;
    for i in STORED..STORED + PUSHED {
        v.push(big(i));
    }
    let ro = v.read_only_clone();
    let obs: Obs = Arc::new(Mutex::new(vec![]));
    let o2 = obs.clone();
    let db2 = db.clone();
    let writer: Job = Box::new(move || {
        let mut v = v;
        v.write().expect("write");
        db2.flush().expect("flush"); // frees the old extent ...
        db2.flush().expect("flush"); // ... and so does an idle flush
        let fresh = db2.create_region_if_needed("fresh").expect("create");
        fresh.write(&vec![0xEE; 1 << 20]).expect("write fresh"); // may land on the old extent
        drop(v);
    });
    let reader: Job = Box::new(move || {
        vecdb::verif::set_mmap_crossover_bytes(0);
        for round in 0..2 {
            let len = ro.len();
            let mut i = 0usize;
            let mut first_bad = None;
            let n = ro.fold_range_at(0, len, 0usize, |n, x| {
                if i == 1 && round == 0 {
                    // the first buffer is loaded: let the writer do all of its work here
                    rawdb::verif::point("harness:scan_after_first_refill");
                }
                if x != big(i) && first_bad.is_none() {
                    first_bad = Some((i, x));
                }
                i += 1;
                n + 1
            });
            let mut bad = |what: String| o2.lock().unwrap().push(what);
            if len != STORED && len != STORED + PUSHED {
                bad(format!("impossible-length:: observed length {len}"));
            }
            if n != len {
                bad(format!("short-read:: round {round}: length {len} observed but the scan visited {n} elements"));
            }
            if let Some((i, x)) = first_bad {
                // compressed formats: the stored prefix ends in a partial raw page (69 632..70 000)
                // which the writer re-encodes in place - the listed finding KF-C09-1, reached here
                // through the scan; anything below that page is something else
                let class = if V::F != "Bytes" && i >= STORED / 2048 * 2048 && i < STORED && len == STORED { "last-raw-page-reencoded" } else { "wrong-element" };
                bad(format!("{class}:: round {round}: the file-IO scan delivered {x:#x} for element {i}, {:#x} was pushed there (length observed: {len})", big(i)));
            }
        }
        vecdb::verif::reset_knobs();
    });
    let check = Box::new(move |_punches: &[sched::PunchRec]| {
        let o = obs.lock().unwrap();
        let _keep = &db;
        if let Some(first) = o.first() { Err(first.clone()) } else { Ok(()) }
    });
    Some(Scn { tmp, jobs: vec![("writer".into(), writer), ("reader".into(), reader)], check })
}

fn c09_keys() -> Vec<String> {
    let mut out = vec![];
    for f in ["Bytes", "Pco", "LZ4", "Zstd"] {
        for (r, _, _) in c09_regimes(f != "Bytes") {
            for rd in C09_READS {
                if rd == "point_reader" && f != "Bytes" {
                    continue;
                }
                out.push(format!("c09|{f}|{r}|{rd}"));
            }
        }
    }
    for f in ["Bytes", "LZ4"] {
        out.push(format!("c09|{f}|scan_across_reuse|fold_io"));
    }
    out
}

// ---------------------------------------------------------------------------------------------
// rawdb operation catalogue (C10, C11, C12)
// ---------------------------------------------------------------------------------------------

/// The prepared database of the rawdb scenarios: regions a..f with different allocator
/// situations, a free hole, and a last region.
struct World {
    db: Database,
    /// compressed vectors (100 stored values in a raw partial page) for the vector operations
    vecs: Vec<Option<PcoVec<usize, u64>>>,
    ros: Vec<<PcoVec<usize, u64> as StoredVec>::ReadOnly>,
    raws: Vec<Option<BytesVec<usize, u64>>>,
}

fn world(tmp: &TempDir, min_len: usize, with_vecs: bool) -> Option<World> {
    let db = if min_len == 0 { Database::open(tmp.path()).ok()? } else { Database::open_with_min_len(tmp.path(), min_len).ok()? };
    // layout: a(4K) | hole(4K, from removed x) | b(8K reserve, len 100) | c(4K) | d(4K) | e(4K) | last(4K)
    let mk = |n: &str, len: usize, serial: u64| -> Option<Region> {
        let r = db.create_region_if_needed(n).ok()?;
        r.write(&payload(serial, len)).ok()?;
        Some(r)
    };
    mk("a", 3000, 1)?;
    let x = mk("x", 100, 2)?;
    let b = mk("b", 5000, 3)?;
    b.truncate(100).ok()?;
    mk("c", 2000, 4)?;
    mk("d", 1000, 5)?;
    mk("e", 500, 6)?;
    mk("last", 700, 7)?;
    x.remove().ok()?;
    let mut vecs = vec![];
    let mut ros = vec![];
    let mut raws = vec![];
    for k in 0..if with_vecs { 3 } else { 0 } {
        let mut v: PcoVec<usize, u64> = PcoVec::forced_import(&db, &format!("vc{k}"), Version::new(1)).ok()?;
        for i in 0..100 {
            v.push(val(i));
        }
        v.write().ok()?;
        ros.push(v.read_only_clone());
        vecs.push(Some(v));
        let mut r: BytesVec<usize, u64> = BytesVec::forced_import(&db, &format!("vr{k}"), Version::new(1)).ok()?;
        for i in 0..100 {
            r.push(val(i));
        }
        r.write().ok()?;
        raws.push(Some(r));
    }
    db.flush().ok()?; // promotes x's extent to a reusable hole
    Some(World { db, vecs, ros, raws })
}

/// One catalogue operation as a job on the shared world. `slot` makes the regions used by two
/// instances of the same operation distinct.
fn raw_op(w: &mut World, op: &str, slot: usize) -> Option<Job> {
    let db = w.db.clone();
    let names = ["a", "c", "d", "e"];
    let own = names[slot % names.len()].to_string();
    let job: Job = match op {
        // errors are legitimate outcomes under concurrency (e.g. RegionStillReferenced while
        // compaction holds a handle); only deadlocks and panics inside the library count here
        "write_fits" => Box::new(move || {
            let r = db.get_region("b").unwrap();
            let _ = r.write(&payload(100 + slot as u64, 3000));
        }),
        "write_relocate" => Box::new(move || {
            let r = db.get_region(&own).unwrap();
            let _ = r.write(&payload(200 + slot as u64, 9000));
        }),
        "write_extend_last" => Box::new(move || {
            // only one region can be the last one: further instances grow their own region far
            // beyond the file instead (relocation to the end + file growth)
            let r = db.get_region(if slot == 0 { "last" } else { own.as_str() }).unwrap();
            let _ = r.write(&payload(300 + slot as u64, 2_000_000));
        }),
        "write_at" => Box::new(move || {
            let r = db.get_region(&own).unwrap();
            let _ = r.write_at(&payload(400 + slot as u64, 50), 10);
        }),
        "truncate" => Box::new(move || {
            let r = db.get_region(&own).unwrap();
            let _ = r.truncate(10);
        }),
        "rename" => Box::new(move || {
            let r = db.get_region(&own).unwrap();
            let _ = r.rename(&format!("{own}-renamed"));
        }),
        "remove_create" => Box::new(move || {
            let r = db.get_region(&own).unwrap();
            let _ = r.remove();
            if let Ok(n) = db.create_region_if_needed(&format!("new{slot}")) {
                let _ = n.write(&payload(500 + slot as u64, 100));
            }
        }),
        "create" => Box::new(move || {
            if let Ok(n) = db.create_region_if_needed(&format!("created{slot}")) {
                let _ = n.write(&payload(600 + slot as u64, 5000));
            }
        }),
        "region_flush" => Box::new(move || {
            let r = db.get_region(&own).unwrap();
            let _ = r.write_at(&[1, 2, 3], 0);
            let _ = r.flush();
        }),
        "db_flush" => Box::new(move || {
            let _ = db.flush();
        }),
        "compact" => Box::new(move || {
            let _ = db.compact();
        }),
        "bg_compact" => Box::new(move || {
            db.run_bg(|d| d.compact_deferred(std::time::Duration::from_millis(0)));
            let _ = db.sync_bg_tasks();
        }),
        "reader" => Box::new(move || {
            let r = db.get_region(&own).unwrap();
            let rd = r.create_reader();
            let n = rd.read_all().len();
            drop(rd);
            let _ = n;
        }),
        "vec_write_fast" | "vec_write_slow" | "vec_write_many_pages" => {
            // the first vector writer of a scenario gets vector 0, the one the readers read
            let mut v = w.vecs.iter_mut().find(|v| v.is_some())?.take()?;
            let n = match op {
                "vec_write_fast" => 20,
                "vec_write_slow" => 3000,
                _ => 600_000, // > 256 pages: the page-index region outgrows its first page
            };
            Box::new(move || {
                for i in 100..100 + n {
                    v.push(val(i));
                }
                let _ = v.write();
            })
        }
        "vec_read" | "vec_read_io" => {
            let ro = w.ros[0].clone();
            let io = op == "vec_read_io";
            Box::new(move || {
                if io {
                    vecdb::verif::set_mmap_crossover_bytes(0);
                }
                let len = ro.len();
                // the scan back-end (mmap / file IO) is chosen by the fold paths
                let n = ro.fold_range_at(0, len, 0usize, |n, _| n + 1);
                let got = ro.collect_range_at(0, len);
                if io {
                    vecdb::verif::reset_knobs();
                }
                let _ = (n, got);
            })
        }
        "raw_vec_write" => {
            let mut v = w.raws.iter_mut().find(|v| v.is_some())?.take()?;
            Box::new(move || {
                for i in 100..3000 {
                    v.push(val(i));
                }
                let _ = v.write();
            })
        }
        "retain" => Box::new(move || {
            let keep: std::collections::HashSet<String> = db.regions().id_to_index().keys().filter(|k| !k.starts_with('e') || k.len() > 1).cloned().collect();
            let _ = db.retain_regions(keep);
        }),
        _ => return None,
    };
    Some(job)
}

const RAW_OPS: [&str; 20] = ["write_fits", "write_relocate", "write_extend_last", "write_at", "truncate", "rename", "remove_create", "create", "region_flush", "db_flush", "compact", "bg_compact", "reader", "retain", "vec_write_fast", "vec_write_slow", "vec_write_many_pages", "vec_read", "vec_read_io", "raw_vec_write"];

fn c11_build(ops: &[&str]) -> Option<Scn> {
    let tmp = TempDir::new("c11");
    let mut w = world(&tmp, 0, ops.iter().any(|o| o.contains("vec")))?;
    let mut jobs = vec![];
    for (k, op) in ops.iter().enumerate() {
        jobs.push((format!("{op}#{k}"), raw_op(&mut w, op, k)?));
    }
    let db = w.db.clone();
    let check = Box::new(move |_: &[sched::PunchRec]| check_layout(&db).map(|_| ()).map_err(|e| format!("extent invariant broken at quiescence: {e}")));
    Some(Scn { tmp, jobs, check })
}

// ---------------------------------------------------------------------------------------------
// C10: isolation of distinct regions; the reader clause
// ---------------------------------------------------------------------------------------------

fn c10_build(kind: &str) -> Option<Scn> {
    let tmp = TempDir::new("c10");
    match kind {
        // two (three) threads work on their own regions through every placement path
        "isolation2" | "isolation3" => {
            let w = world(&tmp, 0, false)?;
            let n = if kind == "isolation2" { 2 } else { 3 };
            let mut jobs: Vec<(String, Job)> = vec![];
            let expected: Arc<Mutex<BTreeMap<String, Vec<u8>>>> = Arc::new(Mutex::new(BTreeMap::new()));
            for t in 0..n {
                let db = w.db.clone();
                let exp = expected.clone();
                jobs.push((
                    format!("worker{t}"),
                    Box::new(move || {
                        let name = format!("own{t}");
                        let r = db.create_region_if_needed(&name).unwrap();
                        let mut model: Vec<u8> = vec![];
                        let check = |r: &Region, model: &Vec<u8>, when: &str| {
                            let rd = r.create_reader();
                            let got = rd.read_all().to_vec();
                            drop(rd);
                            assert!(got == *model, "isolation: region {} differs from its own thread's model after {when} (len {} vs {})", r.meta().id(), got.len(), model.len());
                        };
                        for (k, size) in [100usize, 5000, 12_000 + t * 4096, 300].iter().enumerate() {
                            let p = payload((t * 100 + k) as u64, *size);
                            r.write(&p).unwrap();
                            model.extend_from_slice(&p);
                            check(&r, &model, "append");
                        }
                        r.truncate(6000).unwrap();
                        model.truncate(6000);
                        check(&r, &model, "truncate");
                        if t == 0 {
                            db.flush().unwrap();
                        }
                        let p = payload((t * 100 + 50) as u64, 40_000);
                        r.write(&p).unwrap();
                        model.extend_from_slice(&p);
                        check(&r, &model, "grow");
                        exp.lock().unwrap().insert(name, model);
                    }),
                ));
            }
            let db = w.db.clone();
            let check = Box::new(move |_punches: &[sched::PunchRec]| {
                check_layout(&db).map_err(|e| format!("extent invariant broken at quiescence: {e}"))?;
                for (n, m) in expected.lock().unwrap().iter() {
                    let r = db.get_region(n).ok_or(format!("region {n} disappeared"))?;
                    if r.create_reader().read_all() != &m[..] {
                        return Err(format!("final contents of {n} differ from its thread's model"));
                    }
                }
                Ok(())
            });
            Some(Scn { tmp, jobs, check })
        }
        // two creators on a file whose allocated area ends exactly one page before the file end
        "create_at_file_boundary" => {
            let db = Database::open(tmp.path()).ok()?;
            // regions of 4 KiB * 2^i: the file doubles along, and after the 8th the allocated
            // area ends exactly one page before the end of the file
            let mut i = 0;
            while i < 12 {
                let r = db.create_region_if_needed(&format!("fill{i}")).ok()?;
                r.write(&vec![i as u8; (4096usize << i) - 1]).ok()?;
                i += 1;
                if db.layout().len() + 4096 == db.file_len() {
                    break;
                }
            }
            if db.layout().len() + 4096 != db.file_len() {
                return None;
            }
            if std::env::var("VERIF_DEBUG_SCHED").is_ok() {
                eprintln!("boundary setup: file_len {} layout.len {} regions {}", db.file_len(), db.layout().len(), i);
            }
            let mut jobs: Vec<(String, Job)> = vec![];
            for t in 0..2 {
                let db = db.clone();
                jobs.push((
                    format!("creator{t}"),
                    Box::new(move || {
                        let r = db.create_region_if_needed(&format!("fresh{t}")).unwrap();
                        r.write(&payload(t as u64, 10)).unwrap();
                    }),
                ));
            }
            let db2 = db.clone();
            let check = Box::new(move |_: &[sched::PunchRec]| check_layout(&db2).map(|_| ()).map_err(|e| format!("extent invariant broken at quiescence: {e}")));
            Some(Scn { tmp, jobs, check })
        }
        // a reader held across relocation + flush + reuse of the old extent
        // one thread grows the file by more than a factor of two in a single write while another
        // needs the file grown by one page (both go through set_min_len; the file is exactly full
        // beforehand): whatever the order, nobody's bytes may end up beyond the end of the file
        "grow_big_vs_create" => {
            let db = Database::open_with_min_len(tmp.path(), 1 << 20).ok()?;
            let a = db.create_region_if_needed("a").ok()?;
            let first = payload(1, 600_000);
            a.write(&first).ok()?; // reserve 1 MiB at offset 0: the allocated area fills the file
            db.flush().ok()?;
            if db.layout().len() != db.file_len() {
                if std::env::var("VERIF_DEBUG_SCHED").is_ok() {
                    eprintln!("grow_big_vs_create: layout.len {} file_len {}", db.layout().len(), db.file_len());
                }
                return None;
            }
            let more = payload(2, 3 << 20);
            let mut expect = first.clone();
            expect.extend_from_slice(&more);
            let grower: Job = Box::new(move || {
                a.write(&more).unwrap();
            });
            let db1 = db.clone();
            let creator: Job = Box::new(move || {
                let c = db1.create_region_if_needed("c").unwrap();
                c.write(&payload(3, 100)).unwrap();
            });
            let check = Box::new(move |_: &[sched::PunchRec]| {
                check_layout(&db).map_err(|e| format!("extent invariant broken at quiescence: {e}"))?;
                let a = db.get_region("a").ok_or("region a disappeared")?;
                let got = a.create_reader().read_all().to_vec();
                if got != expect {
                    let at = got.iter().zip(&expect).position(|(x, y)| x != y).unwrap_or(got.len().min(expect.len()));
                    return Err(format!("region a differs from what its own thread wrote (len {} vs {}, first difference at {at}: {:?} vs {:?}) after a concurrent file growth", got.len(), expect.len(), got.get(at), expect.get(at)));
                }
                let c = db.get_region("c").ok_or("region c disappeared")?;
                if c.create_reader().read_all() != &payload(3, 100)[..] {
                    return Err("region c differs from what its own thread wrote".into());
                }
                Ok(())
            });
            Some(Scn { tmp, jobs: vec![("grower".into(), grower), ("creator".into(), creator)], check })
        }
        // a thread creates a region in a promoted hole and writes it while another compacts: the
        // creator's bytes must survive (the hole list compaction works from must not be stale)
        "create_vs_compact" | "create_small_vs_compact" => {
            let w = world(&tmp, 0, false)?;
            let db = w.db.clone();
            let size = if kind == "create_vs_compact" { 4096 } else { 100 };
            let data = payload(88, size);
            let (db1, d1) = (db.clone(), data.clone());
            let writer: Job = Box::new(move || {
                let r = db1.create_region_if_needed("fresh").unwrap();
                r.write(&d1).unwrap();
            });
            let db2 = db.clone();
            let compactor: Job = Box::new(move || {
                db2.compact().unwrap();
            });
            let others: Vec<(String, Vec<u8>)> = ["a", "b", "c", "d", "e", "last"].iter().map(|n| (n.to_string(), db.get_region(n).unwrap().create_reader().read_all().to_vec())).collect();
            let check = Box::new(move |punches: &[sched::PunchRec]| {
                let r = db.get_region("fresh").ok_or("the created region does not exist")?;
                let got = r.create_reader().read_all().to_vec();
                if got != data {
                    let at = got.iter().zip(&data).position(|(a, b)| a != b).unwrap_or(got.len().min(data.len()));
                    let abs = r.meta().start() + at;
                    let culprit = punches.iter().rev().find(|p| p.off <= abs && abs < p.off + p.len);
                    let writer_state = culprit.and_then(|p| p.threads.iter().find(|t| t.0 == "writer").map(|t| t.1.clone())).unwrap_or_else(|| "no-punch-covers-it".into());
                    // same window as the finding listed under C12: bytes copied into the reserve,
                    // length not yet published, compaction punches "beyond the length"
                    let class = if writer_state.starts_with("unpublished") { "appended-bytes-lost".to_string() } else { format!("bytes-lost-while-writer-{writer_state}") };
                    return Err(format!("{class}:: a region created and written while compact() ran has {} bytes (expected {}), first difference at offset {at}: {:?} vs {:?}", got.len(), data.len(), got.get(at), data.get(at)));
                }
                for (n, bytes) in &others {
                    if db.get_region(n).unwrap().create_reader().read_all() != &bytes[..] {
                        return Err(format!("region {n}, which no thread touched, changed"));
                    }
                }
                check_layout(&db).map(|_| ()).map_err(|e| format!("extent invariant broken at quiescence: {e}"))
            });
            Some(Scn { tmp, jobs: vec![("writer".into(), writer), ("compact".into(), compactor)], check })
        }
        "reader_across_reuse" | "reader_across_remove" => {
            let db = Database::open_with_min_len(tmp.path(), 1 << 20).ok()?;
            let r = db.create_region_if_needed("r").ok()?;
            r.write(&payload(1, 3000)).ok()?;
            let pad = db.create_region_if_needed("pad").ok()?;
            pad.write(&payload(2, 10)).ok()?;
            db.flush().ok()?;
            let obs: Obs = Arc::new(Mutex::new(vec![]));
            let (o2, r2, db2) = (obs.clone(), r.clone(), db.clone());
            let holder: Job = Box::new(move || {
                let rd = r2.create_reader();
                let snapshot = rd.read_all().to_vec();
                rawdb::verif::point("harness:reader_held");
                rawdb::verif::point("harness:reader_held2");
                let again = rd.read_all().to_vec();
                if again != snapshot {
                    // bytes below the snapshot length must be bytes this region held: the region
                    // only ever held payload(1, ..) at these offsets
                    let at = again.iter().zip(&snapshot).position(|(a, b)| a != b).unwrap_or(0);
                    o2.lock().unwrap().push(format!("a held reader returned other bytes at offset {at} after the region was relocated and its old extent re-used (got {}, the region held {})", again[at], snapshot[at]));
                }
                drop(rd);
            });
            let by_remove = kind == "reader_across_remove";
            let mover: Job = Box::new(move || {
                if by_remove {
                    r.remove().unwrap(); // frees r's extent
                } else {
                    r.write(&payload(1, 9000)[3000..]).unwrap(); // relocates r (pad is behind it)
                }
                db2.flush().unwrap(); // would promote the old extent
                db2.flush().unwrap(); // ... and so would an idle flush
                let c = db2.create_region_if_needed("c").unwrap(); // may land in the old extent
                c.write(&payload(9, 3000)).unwrap();
            });
            let check = Box::new(move |_punches: &[sched::PunchRec]| {
                let _keep = &db;
                let o = obs.lock().unwrap();
                if let Some(f) = o.first() { Err(f.clone()) } else { Ok(()) }
            });
            Some(Scn { tmp, jobs: vec![("reader_holder".into(), holder), ("mover".into(), mover)], check })
        }
        _ => None,
    }
}

/// A worker that owns one vector: pushes, writes, truncations, flushes; after every step the
/// vector (and, after a write, its read-only clone) must hold exactly what this thread put there.
fn vec_script<V: V9>(db: &Database, name: &str, script: &[(usize, usize)], seed: u64)
where
    V::ReadOnly: Send,
{
    let mut v: V = V::forced_import(db, name, Version::new(1)).unwrap();
    let mut model: Vec<u64> = vec![];
    let mut next = crate::common::mix64(seed, 1) >> 8;
    for &(op, a) in script {
        let when = match op {
            0..=4 => {
                for _ in 0..[1usize, 30, 500, 2048, 3000][a % 5] {
                    v.push(next);
                    model.push(next);
                    next = next.wrapping_mul(6364136223846793005).wrapping_add(1442695040888963407) >> 1;
                }
                "push"
            }
            5..=7 => {
                v.write().unwrap();
                let ro = v.read_only_clone();
                let got: Vec<u64> = ro.collect_range_at(0, usize::MAX);
                assert!(got == model, "isolation: the read-only clone of vector {name} differs from its own thread's model after write (len {} vs {})", got.len(), model.len());
                "write"
            }
            8 | 9 => {
                let t = a % (model.len() + 1);
                v.truncate_if_needed_at(t).unwrap();
                model.truncate(t);
                "truncate"
            }
            _ => {
                AnyStoredVec::flush(&mut v).unwrap();
                "flush"
            }
        };
        let got: Vec<u64> = v.collect_range_at(0, usize::MAX);
        if got != model {
            let at = got.iter().zip(&model).position(|(x, y)| x != y).unwrap_or(got.len().min(model.len()));
            panic!("isolation: vector {name} differs from its own thread's model after {when} (len {} vs {}, first difference at {at})", got.len(), model.len());
        }
    }
    AnyStoredVec::flush(&mut v).unwrap();
}

/// Randomised isolation scripts: `n` selects (through the PRNG) the pre-state, the number of
/// workers and every worker's own sequence of operations on its own regions (appends through
/// every placement path, write_at, truncate, truncate_write, rename, remove + re-create, a second
/// and third region, region flush, database flush). Every worker compares all of its regions with
/// its own byte model after every operation; at quiescence the extent invariants, every worker's
/// final contents, the regions nobody touched and the absence of stray regions are checked.
/// Up to two more workers own a vector each (raw or compressed) and push / write / truncate /
/// flush it, comparing it and its read-only clone with their own model.
/// compact() is not part of the scripts: writer-vs-compact is C12's scenario (and its known finding).
fn c10_isorand(n: u64) -> Option<Scn> {
    let tmp = TempDir::new("c10r");
    let mut rng = Rng::derive(n, &[10, 77]);
    let db = if rng.chance(1, 2) { world(&tmp, 0, false)?.db } else { Database::open(tmp.path()).ok()? };
    let untouched: Vec<(String, Vec<u8>)> = {
        let names: Vec<String> = db.regions().id_to_index().keys().map(|k| k.to_string()).collect();
        names.into_iter().filter_map(|k| db.get_region(&k).map(|r| (k, r.create_reader().read_all().to_vec()))).collect()
    };
    let workers = 2 + rng.below(2);
    let expected: Arc<Mutex<BTreeMap<String, Vec<u8>>>> = Arc::new(Mutex::new(BTreeMap::new()));
    let mut jobs: Vec<(String, Job)> = vec![];
    for t in 0..workers {
        let steps = rng.range(5, 10);
        let script: Vec<(usize, usize, usize)> = (0..steps).map(|_| (rng.below(14), rng.next_u64() as usize >> 8, rng.next_u64() as usize >> 8)).collect();
        let db = db.clone();
        let exp = expected.clone();
        jobs.push((
            format!("worker{t}"),
            Box::new(move || {
                let mut own: Vec<(String, Region, Vec<u8>)> = vec![];
                let mut serial = (n.wrapping_mul(31) + t as u64) * 1000;
                let mut fresh = 0usize;
                let mut written: BTreeSet<String> = BTreeSet::new();
                let mut new_name = |fresh: &mut usize| {
                    *fresh += 1;
                    format!("w{t}_{}", *fresh)
                };
                let name = new_name(&mut fresh);
                let r = db.create_region_if_needed(&name).unwrap();
                own.push((name, r, vec![]));
                let check = |own: &Vec<(String, Region, Vec<u8>)>, when: &str| {
                    for (name, r, model) in own {
                        let rd = r.create_reader();
                        let got = rd.read_all().to_vec();
                        drop(rd);
                        if got != *model {
                            let at = got.iter().zip(model).position(|(a, b)| a != b).unwrap_or(got.len().min(model.len()));
                            panic!("isolation: region {name} differs from its own thread's model after {when} (len {} vs {}, first difference at {at})", got.len(), model.len());
                        }
                        assert!(r.meta().id() == name, "isolation: region {name} is called {} after {when}", r.meta().id());
                    }
                };
                const SIZES: [usize; 9] = [1, 100, 3000, 4096, 4097, 5000, 9000, 20_000, 70_000];
                for (op, a, b) in script {
                    let k = a % own.len();
                    let len = own[k].2.len();
                    serial += 1;
                    let when = match op {
                        0..=3 => {
                            let p = payload(serial, SIZES[b % SIZES.len()]);
                            own[k].1.write(&p).unwrap();
                            own[k].2.extend_from_slice(&p);
                            "append"
                        }
                        4 => {
                            if len > 0 {
                                let at = b % len;
                                let p = payload(serial, 1 + (a / 7) % 300);
                                own[k].1.write_at(&p, at).unwrap();
                                let end = at + p.len();
                                if end > own[k].2.len() {
                                    own[k].2.resize(end, 0);
                                }
                                own[k].2[at..end].copy_from_slice(&p);
                            }
                            "write_at"
                        }
                        5 => {
                            let from = b % (len + 1);
                            own[k].1.truncate(from).unwrap();
                            own[k].2.truncate(from);
                            "truncate"
                        }
                        6 => {
                            let at = b % (len + 1);
                            let p = payload(serial, [10usize, 5000, 13_000][(a / 3) % 3]);
                            own[k].1.truncate_write(at, &p).unwrap();
                            own[k].2.truncate(at);
                            own[k].2.extend_from_slice(&p);
                            "truncate_write"
                        }
                        7 => {
                            let to = new_name(&mut fresh);
                            own[k].1.rename(&to).unwrap();
                            own[k].0 = to;
                            "rename"
                        }
                        8 => {
                            let (old_name, r, old_model) = own.remove(k);
                            match r.remove() {
                                Ok(()) => {}
                                // another thread's Database::flush holds clones of every dirty
                                // region while it runs: a legitimate refusal, nothing changes
                                Err(rawdb::Error::RegionStillReferenced { .. }) => {
                                    let r = db.get_region(&old_name).expect("isolation: a region whose removal was refused disappeared");
                                    own.push((old_name, r, old_model));
                                    check(&own, "refused remove");
                                    continue;
                                }
                                Err(e) => panic!("isolation: remove of {old_name} failed: {e}"),
                            }
                            let name = new_name(&mut fresh);
                            let r = db.create_region_if_needed(&name).unwrap();
                            let p = payload(serial, 10 + b % 6000);
                            r.write(&p).unwrap();
                            own.push((name, r, p));
                            "remove + create"
                        }
                        9 | 10 => {
                            if own.len() < 3 {
                                let name = new_name(&mut fresh);
                                let r = db.create_region_if_needed(&name).unwrap();
                                let p = payload(serial, b % 9000);
                                r.write(&p).unwrap();
                                own.push((name, r, p));
                            }
                            "create"
                        }
                        11 => {
                            // a region that was created and never given a byte has no metadata
                            // slot yet; Region::flush says so (C01 tolerates the same)
                            match own[k].1.flush() {
                                Ok(_) => {}
                                Err(rawdb::Error::RegionMetadataUnwritten) if !written.contains(&own[k].0) => {}
                                Err(e) => panic!("isolation: Region::flush of {} failed: {e}", own[k].0),
                            }
                            "region flush"
                        }
                        _ => {
                            db.flush().unwrap();
                            "database flush"
                        }
                    };
                    for o in &own {
                        if !o.2.is_empty() {
                            written.insert(o.0.clone());
                        }
                    }
                    if std::env::var("VERIF_DEBUG_SCHED").is_ok() {
                        eprintln!("isorand worker{t}: op {op} = {when} on {} (len {len} -> {})", own.get(k).map(|o| o.0.as_str()).unwrap_or("?"), own.get(k).map(|o| o.2.len()).unwrap_or(0));
                    }
                    check(&own, when);
                }
                let mut e = exp.lock().unwrap();
                for (name, _, model) in own {
                    e.insert(name, model);
                }
            }),
        ));
    }
    // "(or distinct vectors)": up to two workers that own a vector each (raw / compressed)
    let nvec = rng.below(3);
    for j in 0..nvec {
        let steps = rng.range(4, 9);
        let script: Vec<(usize, usize)> = (0..steps).map(|_| (rng.below(12), rng.next_u64() as usize >> 8)).collect();
        let db = db.clone();
        let compressed = (n as usize + j) % 2 == 1;
        let seed = n.wrapping_mul(17) + j as u64;
        jobs.push((
            format!("vecworker{j}"),
            Box::new(move || {
                let name = format!("wv{j}");
                if compressed {
                    vec_script::<PcoVec<usize, u64>>(&db, &name, &script, seed);
                } else {
                    vec_script::<BytesVec<usize, u64>>(&db, &name, &script, seed);
                }
            }),
        ));
    }
    let check = Box::new(move |_punches: &[sched::PunchRec]| {
        check_layout(&db).map_err(|e| format!("extent invariant broken at quiescence: {e}"))?;
        let exp = expected.lock().unwrap();
        for (n, m) in exp.iter() {
            let r = db.get_region(n).ok_or(format!("region {n} disappeared"))?;
            if r.create_reader().read_all() != &m[..] {
                return Err(format!("final contents of {n} differ from its thread's model"));
            }
        }
        for (n, m) in &untouched {
            let r = db.get_region(n).ok_or(format!("untouched region {n} disappeared"))?;
            if r.create_reader().read_all() != &m[..] {
                return Err(format!("region {n}, which no thread touched, changed"));
            }
        }
        let names: Vec<String> = db.regions().id_to_index().keys().map(|k| k.to_string()).collect();
        for k in names {
            if !exp.contains_key(&k) && !untouched.iter().any(|(n, _)| *n == k) && !k.starts_with("wv") {
                return Err(format!("stray region {k} exists at quiescence (renamed away or removed by its owner)"));
            }
        }
        Ok(())
    });
    Some(Scn { tmp, jobs, check })
}

// ---------------------------------------------------------------------------------------------
// C12: a writer extending into its reserve while compact() runs
// ---------------------------------------------------------------------------------------------

fn c12_build(kind: &str) -> Option<Scn> {
    let tmp = TempDir::new("c12");
    let w = world(&tmp, 0, false)?;
    let db = w.db.clone();
    let (region, append): (&str, usize) = match kind {
        "append_into_reserve" => ("b", 5000),
        "append_small" => ("b", 50),
        "append_page_exact" => ("b", 4096 - 100),
        // region a (3000 of 4096 bytes) outgrows its reserve and expands into the free hole behind it
        "expand_into_hole" => ("a", 3000),
        // region c outgrows its reserve with no hole behind it: relocation
        "relocate" => ("c", 9000),
        _ => return None,
    };
    let r = db.get_region(region)?;
    let before = r.create_reader().read_all().to_vec();
    let file_len = db.file_len();
    let add = payload(77, append);
    let mut expect = before.clone();
    expect.extend_from_slice(&add);
    let r2 = r.clone();
    let class: &'static str = if kind == "append_into_reserve" { "appended-bytes-lost" } else { "bytes-lost" };
    let writer: Job = Box::new(move || {
        r2.write(&add).unwrap();
    });
    let db2 = db.clone();
    let compactor: Job = Box::new(move || {
        db2.compact().unwrap();
    });
    let others: Vec<(String, Vec<u8>)> = ["a", "b", "c", "d", "e", "last"].iter().filter(|n| **n != region).map(|n| (n.to_string(), db.get_region(n).unwrap().create_reader().read_all().to_vec())).collect();
    let check = Box::new(move |_punches: &[sched::PunchRec]| {
        let got = r.create_reader().read_all().to_vec();
        if got != expect {
            let at = got.iter().zip(&expect).position(|(a, b)| a != b).unwrap_or(got.len().min(expect.len()));
            // which punch zeroed it, and where was the writer then? The listed finding is the window
            // "bytes copied, length not yet published"; a punch after the writer has finished (or
            // before it copied) is something else
            let abs = r.meta().start() + at;
            let culprit = _punches.iter().rev().find(|p| p.off <= abs && abs < p.off + p.len); // the last one: nothing rewrote the bytes after it
            let writer_state = culprit.and_then(|p| p.threads.iter().find(|t| t.0 == "writer").map(|t| t.1.clone())).unwrap_or_else(|| "no-punch-covers-it".into());
            // "unpublished": the writer had not yet taken the metadata write lock that publishes
            // its new length when the punch happened - the window of the listed finding
            let class = if writer_state.starts_with("unpublished") { class.to_string() } else { format!("bytes-lost-while-writer-{writer_state}") };
            return Err(format!("{}:: after compact() raced with an append into the reserve, region {region} has {} bytes (expected {}), first difference at offset {at}: {:?} vs {:?}", class, got.len(), expect.len(), got.get(at), expect.get(at)));
        }
        for (n, bytes) in &others {
            if db.get_region(n).unwrap().create_reader().read_all() != &bytes[..] {
                return Err(format!("compact() changed the bytes of untouched region {n}"));
            }
        }
        if db.file_len() != file_len {
            return Err(format!("compact() changed the file's logical length from {file_len} to {}", db.file_len()));
        }
        check_layout(&db).map(|_| ()).map_err(|e| format!("extent invariant broken: {e}"))
    });
    Some(Scn { tmp, jobs: vec![("writer".into(), writer), ("compact".into(), compactor)], check })
}

// ---------------------------------------------------------------------------------------------
// Scenario registry (keys are stable strings so that a child process can rebuild one)
// ---------------------------------------------------------------------------------------------

pub fn build(key: &str) -> Option<Scn> {
    let parts: Vec<&str> = key.split('|').collect();
    match parts.as_slice() {
        ["c09", f, regime, read] => match *f {
            "Bytes" => c09_build::<BytesVec<usize, u64>>(regime, read),
            "Pco" => c09_build::<PcoVec<usize, u64>>(regime, read),
            "LZ4" => c09_build::<LZ4Vec<usize, u64>>(regime, read),
            "Zstd" => c09_build::<ZstdVec<usize, u64>>(regime, read),
            _ => None,
        },
        ["c10", "isorand", n] => c10_isorand(n.parse().ok()?),
        ["c10", kind] => c10_build(kind),
        ["c11", ops @ ..] => c11_build(ops),
        ["c12", kind] => c12_build(kind),
        _ => None,
    }
}

// ---------------------------------------------------------------------------------------------
// Exploration
// ---------------------------------------------------------------------------------------------

#[derive(Default)]
pub struct Explored {
    pub runs: u64,
    pub schedules: BTreeSet<u64>,
    pub steps_total: u64,
    pub max_steps: usize,
    pub exhaustive: bool,
    pub failures: Vec<(String, String, Vec<usize>)>, // (signature, what, schedule)
    pub deadlocks: Vec<(Deadlock, Vec<usize>)>,
    pub stuck: Vec<String>,
    pub edges: BTreeMap<String, BTreeSet<String>>,
    pub outcomes: BTreeSet<String>,
}

pub enum Mode {
    /// `random_first` seeded random schedules, then depth-first enumeration
    Mixed { random_first: usize, seed: u64, max_preempt: usize, max_runs: usize },
    Dfs { max_preempt: usize, max_runs: usize },
    Random { runs: usize, seed: u64 },
    /// one run per directed plan
    Guided(Vec<Vec<(usize, String, rawdb::verif::Mode, Option<String>)>>),
}

fn one_run(key: &str, policy: Policy, ex: &mut Explored) -> Option<Vec<Step>> {
    let scn = build(key)?;
    let Scn { tmp, jobs, check } = scn;
    let res = sched::run(jobs, policy, OnDeadlock::Abort, 4000);
    ex.runs += 1;
    let chosen: Vec<usize> = res.steps.iter().map(|s| s.chosen).collect();
    ex.schedules.insert(fnv(format!("{chosen:?}").as_bytes()));
    ex.steps_total += res.steps.len() as u64;
    ex.max_steps = ex.max_steps.max(res.steps.len());
    for (k, v) in res.edges {
        ex.edges.entry(k).or_default().extend(v);
    }
    match res.end {
        RunEnd::Completed => {
            if let Some((t, p)) = res.panics.first() {
                let t0 = t.split('#').next().unwrap_or(t);
                ex.failures.push((format!("panic|{t0}|{}", normalize_msg(p)), format!("thread {t} panicked: {p}"), chosen.clone()));
                ex.outcomes.insert("panic".into());
            } else {
                match check(&res.punches) {
                    Ok(()) => {
                        ex.outcomes.insert("ok".into());
                    }
                    Err(e) => {
                        let class = match e.split_once(":: ") {
                            Some((c, _)) if !c.contains(' ') => c.to_string(),
                            _ => normalize_msg(&e),
                        };
                        ex.failures.push((format!("oracle|{class}"), e, chosen.clone()));
                        ex.outcomes.insert("oracle-failed".into());
                    }
                }
            }
        }
        RunEnd::Deadlock(d) => {
            ex.outcomes.insert("modelled-deadlock".into());
            if !ex.deadlocks.iter().any(|(x, _)| x.signature == d.signature) {
                ex.deadlocks.push((d, chosen.clone()));
            }
        }
        RunEnd::Stuck(why) => {
            ex.outcomes.insert("stuck".into());
            ex.stuck.push(why);
        }
    }
    drop(tmp);
    Some(res.steps)
}

pub fn explore(key: &str, mode: Mode, deadline: f64, ctx: &Ctx) -> Explored {
    let mut ex = Explored::default();
    let mode = match mode {
        Mode::Mixed { random_first, seed, max_preempt, max_runs } => {
            for k in 0..random_first {
                if one_run(key, Policy::Random { seed: crate::common::mix64(seed, k as u64), stay: 60 }, &mut ex).is_none() || !ex.stuck.is_empty() || ctx.elapsed() > deadline {
                    return ex;
                }
            }
            Mode::Dfs { max_preempt, max_runs }
        }
        m => m,
    };
    match mode {
        Mode::Mixed { .. } => unreachable!(),
        Mode::Dfs { max_preempt, max_runs } => {
            // iterative deepening on the pre-emption bound, from both ends of the tree: all
            // schedules with few pre-emptions are covered before the run cap is reached
            let start_runs = ex.runs as usize;
            let mut finished_all = true;
            'outer: for bound in 0..=max_preempt {
                for high in [false, true] {
                    let mut prefix: Vec<usize> = vec![];
                    loop {
                        let policy = if high { Policy::PrefixHigh(prefix.clone()) } else { Policy::Prefix(prefix.clone()) };
                        let Some(steps) = one_run(key, policy, &mut ex) else { break 'outer };
                        if !ex.stuck.is_empty() {
                            finished_all = false;
                            break 'outer;
                        }
                        match sched::next_prefix_dir(&steps, bound, high) {
                            None => break,
                            Some(p) => prefix = p,
                        }
                        if ex.runs as usize - start_runs >= max_runs || ctx.elapsed() > deadline {
                            finished_all = false;
                            break 'outer;
                        }
                    }
                }
            }
            ex.exhaustive = finished_all;
        }
        Mode::Guided(plans) => {
            for plan in plans {
                if one_run(key, Policy::Guided(plan), &mut ex).is_none() || !ex.stuck.is_empty() || ctx.elapsed() > deadline {
                    break;
                }
            }
        }
        Mode::Random { runs, seed } => {
            for k in 0..runs {
                if one_run(key, Policy::Random { seed: crate::common::mix64(seed, k as u64), stay: 70 }, &mut ex).is_none() || !ex.stuck.is_empty() || ctx.elapsed() > deadline {
                    break;
                }
            }
        }
    }
    ex
}

/// Replays `schedule` on `key` in a child process and lets the blocked threads enter the real
/// locks; returns Some(true) when nothing moved for 3 s (a real deadlock).
pub fn confirm_deadlock(key: &str, schedule: &[usize]) -> Option<bool> {
    let exe = std::env::current_exe().ok()?;
    let out = Command::new(exe).args(["sched-confirm", key, &serde_json::to_string(schedule).ok()?]).stdout(Stdio::piped()).stderr(Stdio::null()).output().ok()?;
    let text = String::from_utf8_lossy(&out.stdout);
    let line = text.lines().find(|l| l.starts_with("CONFIRM "))?;
    Some(line.contains("progress_after_release=false"))
}

/// Child entry point: never returns normally (stuck threads are killed by the exit).
pub fn confirm_child(key: &str, schedule_json: &str) -> ! {
    let schedule: Vec<usize> = serde_json::from_str(schedule_json).unwrap_or_default();
    if let Some(Scn { tmp, jobs, check }) = build(key) {
        let _ = sched::run(jobs, Policy::Prefix(schedule), OnDeadlock::ReleaseAndWatch, 4000);
        std::mem::forget(check);
        std::mem::forget(tmp);
    }
    crate::common::cleanup_tmp_root();
    std::process::exit(0);
}

// ---------------------------------------------------------------------------------------------
// Checks
// ---------------------------------------------------------------------------------------------

struct Agg {
    scenarios: u64,
    runs: u64,
    schedules: u64,
    exhaustive_scenarios: u64,
    steps: u64,
    max_steps: usize,
    outcomes: BTreeMap<String, u64>,
    edges: BTreeMap<String, BTreeSet<String>>,
    samples: Vec<Value>,
    confirmed: u64,
    model_only: u64,
    stats: Counter,
}

impl Agg {
    fn new() -> Self {
        Self { scenarios: 0, runs: 0, schedules: 0, exhaustive_scenarios: 0, steps: 0, max_steps: 0, outcomes: BTreeMap::new(), edges: BTreeMap::new(), samples: vec![], confirmed: 0, model_only: 0, stats: Counter::default() }
    }

    /// Folds the exploration of one scenario in and reports its findings.
    fn absorb(&mut self, ctx: &Ctx, report: &Report, prop: &str, key: &str, ex: Explored, deadlock_is_violation: bool) {
        self.scenarios += 1;
        self.runs += ex.runs;
        self.schedules += ex.schedules.len() as u64;
        self.exhaustive_scenarios += ex.exhaustive as u64;
        self.steps += ex.steps_total;
        self.max_steps = self.max_steps.max(ex.max_steps);
        for o in &ex.outcomes {
            *self.outcomes.entry(o.clone()).or_insert(0) += 1;
        }
        for (k, v) in &ex.edges {
            self.edges.entry(k.clone()).or_default().extend(v.iter().cloned());
        }
        if self.samples.len() < 3 && ex.runs > 1 {
            self.samples.push(json!({"scenario": key, "schedules_run": ex.runs, "distinct": ex.schedules.len(), "exhaustive": ex.exhaustive, "longest_schedule_steps": ex.max_steps, "outcomes": ex.outcomes}));
        }
        let scen_class = key.split('|').take(3).collect::<Vec<_>>().join("|");
        // one report per distinct signature (a listed finding must not hide another failure)
        let mut seen_sigs = BTreeSet::new();
        for (sig, what, schedule) in ex.failures.iter().filter(|f| seen_sigs.insert(f.0.clone())).take(6) {
            report.note_failure();
            report.violation(ctx, Violation { sig: format!("{prop}|{scen_class}|{sig}"), what: format!("[{key}] {what}"), detail: json!({"scenario": key, "schedule": schedule, "mismatch": what}) });
        }
        for why in ex.stuck.iter().take(1) {
            report.inconclusive(format!("[{key}] {why}"));
        }
        for (d, schedule) in &ex.deadlocks {
            let confirmed = confirm_deadlock(key, schedule);
            match confirmed {
                Some(true) => {
                    self.confirmed += 1;
                    if deadlock_is_violation {
                        report.note_failure();
                        let waits: Vec<String> = d.waits.iter().map(|(t, w, h)| format!("{t} holds {h:?} and waits for {w}")).collect();
                        report.violation(ctx, Violation { sig: format!("{prop}|deadlock|{}", d.signature), what: format!("confirmed deadlock [{key}]: {}", waits.join("; ")), detail: json!({"scenario": key, "schedule": schedule, "waits": waits}) });
                    }
                }
                Some(false) => {
                    self.model_only += 1;
                    self.stats.bump("deadlock:model_only");
                }
                None => report.inconclusive(format!("[{key}] a modelled deadlock could not be replayed in a child process")),
            }
        }
    }

    fn coverage(&self, rule: &str) -> Value {
        json!({
            "evaluations": self.runs,
            "distinct_nontrivial": self.schedules,
            "rule": rule,
            "samples": self.samples,
            "scenarios": self.scenarios,
            "scenarios_enumerated_exhaustively": self.exhaustive_scenarios,
            "scheduling_steps_executed": self.steps,
            "longest_schedule_steps": self.max_steps,
            "scenario_outcomes": self.outcomes,
            "lock_order_edges_observed": self.edges.iter().filter(|(k, _)| !k.starts_with("acq:")).map(|(k, v)| (k.clone(), json!(v))).collect::<serde_json::Map<_, _>>(),
            "deadlocks": {"confirmed_in_child_process": self.confirmed, "model_only": self.model_only},
        })
    }
}

const RULE_SCHED: &str = "one evaluation = one complete execution of a scenario under the controlled scheduler: the real library code runs on managed threads that stop at every acquisition of a tapped RwLock (layout, regions, mmap, file, region metadata, page index, header), at every named point inside write paths and at background-thread start/join; exactly one thread runs at a time and a lock model with parking_lot's writer preference decides enabledness. Two-thread scenarios are enumerated depth-first (every choice at every scheduling point, bounded by the stated number of pre-emptions and runs; `exhaustive` when the tree was finished), larger ones are sampled with seeded random choices. After every completed schedule the scenario's oracle runs. distinct_nontrivial = distinct schedules (hash of the sequence of chosen threads); every schedule has >= 2 threads and >= 10 scheduling points";

pub fn check_c09(ctx: &Ctx) -> i32 {
    let report = Report::new("C09");
    let mut agg = Agg::new();
    let keys = c09_keys();
    let deadline = ctx.elapsed() + ctx.secs(50.0, 500.0);
    let per = (deadline - ctx.elapsed()) / keys.len() as f64;
    let results = crate::common::run_shards(1, |_| {
        let mut out = vec![];
        for key in &keys {
            if key.contains("|scan_across_reuse|") {
                // few, long runs: one pre-emption (the reader parked inside its scan while the
                // writer does everything) is the family that matters; enumerate it completely
                let ex = explore(key, Mode::Dfs { max_preempt: ctx.pick(1, 2), max_runs: ctx.pick(260, 3000) }, ctx.elapsed() + ctx.secs(10.0, 60.0), ctx);
                out.push((key.clone(), ex));
                continue;
            }
            let d = ctx.elapsed() + per;
            let ex = explore(key, Mode::Mixed { random_first: ctx.pick(12, 60), seed: ctx.seed, max_preempt: ctx.pick(2, 3), max_runs: ctx.pick(400, 4000) }, d, ctx);
            out.push((key.clone(), ex));
        }
        out
    });
    for (key, ex) in results.into_iter().flatten() {
        agg.absorb(ctx, &report, "C09", &key, ex, true);
    }
    let mut cov = agg.coverage(RULE_SCHED);
    cov["scenario_space"] = json!({"formats": ["Bytes", "Pco", "LZ4", "Zstd"], "write_regimes": {"raw": c09_regimes(false).iter().map(|r| r.0).collect::<Vec<_>>(), "compressed": c09_regimes(true).iter().map(|r| r.0).collect::<Vec<_>>()}, "reader_operations": C09_READS, "directed": "scan_across_reuse (file-IO scan of a 560 KB vector across relocation + flushes + reuse of the old extent), Bytes and LZ4"});
    report.finish(ctx, "exploration", cov, &["one writer and one reader thread; the reader performs two reads per run (length monotonicity)", "pre-emption bound 2 (thorough: 3) per schedule"])
}

pub fn check_c10(ctx: &Ctx) -> i32 {
    let report = Report::new("C10");
    let mut agg = Agg::new();
    let deadline = ctx.elapsed() + ctx.secs(50.0, 500.0);
    let plan: Vec<(&str, Mode)> = vec![
        ("c10|isolation2", Mode::Dfs { max_preempt: 2, max_runs: ctx.pick(400, 6000) }),
        ("c10|create_at_file_boundary", Mode::Dfs { max_preempt: 2, max_runs: ctx.pick(300, 3000) }),
        ("c10|reader_across_reuse", Mode::Mixed { random_first: 30, seed: ctx.seed, max_preempt: 3, max_runs: ctx.pick(400, 4000) }),
        ("c10|isolation3", Mode::Random { runs: ctx.pick(150, 3000), seed: ctx.seed }),
        ("c10|create_vs_compact", Mode::Dfs { max_preempt: ctx.pick(2, 3), max_runs: ctx.pick(400, 4000) }),
        ("c10|create_small_vs_compact", Mode::Dfs { max_preempt: ctx.pick(2, 3), max_runs: ctx.pick(300, 3000) }),
    ];
    // randomised isolation scripts: a fresh set per seed, each explored with random schedules and
    // then depth-first with one pre-emption
    let scripts = ctx.pick(24, 240);
    let rand_deadline = ctx.elapsed() + ctx.secs(20.0, 200.0);
    for i in 0..scripts {
        if ctx.elapsed() > rand_deadline || report.failures_seen() >= 6 {
            break;
        }
        let key = format!("c10|isorand|{}", ctx.seed.wrapping_mul(100_003).wrapping_add(i as u64));
        let per = (rand_deadline - ctx.elapsed()).max(0.5) / (scripts - i) as f64;
        let ex = explore(&key, Mode::Mixed { random_first: ctx.pick(10, 40), seed: ctx.seed ^ i as u64, max_preempt: 1, max_runs: ctx.pick(40, 400) }, ctx.elapsed() + per * 1.5, ctx);
        agg.absorb(ctx, &report, "C10", &key, ex, true);
        agg.stats.bump("isorand_scripts");
    }
    // few, long runs (megabytes are written): its own budget, one pre-emption enumerated completely
    {
        let key = "c10|grow_big_vs_create";
        let ex = explore(key, Mode::Dfs { max_preempt: ctx.pick(1, 2), max_runs: ctx.pick(200, 3000) }, ctx.elapsed() + ctx.secs(12.0, 90.0), ctx);
        agg.absorb(ctx, &report, "C10", key, ex, true);
    }
    let n = plan.len() as f64;
    for (key, mode) in plan {
        let d = ctx.elapsed() + (deadline - ctx.elapsed()).max(1.0) / n.max(1.0) * 1.5;
        let ex = explore(key, mode, d.min(deadline), ctx);
        agg.absorb(ctx, &report, "C10", key, ex, true);
    }
    let cov = agg.coverage(RULE_SCHED);
    report.finish(ctx, "exploration", cov, &["per-thread models over disjoint region names; extent invariants judged at quiescence", "the reader clause is decided on a scenario in which the old extent is re-used after a flush"])
}

pub fn check_c12_concurrent(ctx: &Ctx, report: &Report, secs: f64) -> Value {
    let mut agg = Agg::new();
    let keys = ["c12|append_into_reserve", "c12|append_small", "c12|append_page_exact", "c12|expand_into_hole", "c12|relocate"];
    let deadline = ctx.elapsed() + secs;
    for key in keys {
        let d = ctx.elapsed() + secs / keys.len() as f64;
        let ex = explore(key, Mode::Dfs { max_preempt: ctx.pick(3, 4), max_runs: ctx.pick(400, 5000) }, d.min(deadline), ctx);
        agg.absorb(ctx, report, "C12", key, ex, true);
    }
    agg.coverage(RULE_SCHED)
}

pub fn check_c11(ctx: &Ctx) -> i32 {
    let report = Report::new("C11");
    let mut agg = Agg::new();
    let deadline = ctx.elapsed() + ctx.secs(70.0, 600.0);
    // all unordered pairs (an operation with itself included: it then works on other regions)
    let mut pairs = vec![];
    for i in 0..RAW_OPS.len() {
        for j in i..RAW_OPS.len() {
            pairs.push(format!("c11|{}|{}", RAW_OPS[i], RAW_OPS[j]));
        }
    }
    let pair_budget = (deadline - ctx.elapsed()) * 0.45;
    let t_pairs = ctx.elapsed() + pair_budget;
    let per = pair_budget / pairs.len() as f64;
    for key in &pairs {
        if ctx.elapsed() > t_pairs || report.failures_seen() >= 8 {
            report.inconclusive(format!("pair exploration stopped before {key}"));
            break;
        }
        let ex = explore(key, Mode::Mixed { random_first: ctx.pick(6, 40), seed: ctx.seed, max_preempt: ctx.pick(1, 2), max_runs: ctx.pick(18, 600) }, ctx.elapsed() + per * 2.0, ctx);
        agg.absorb(ctx, &report, "C11", key, ex, true);
    }
    agg.stats.add("pairs_explored", agg.scenarios);
    // triples: every combination that contains an operation taking a file/mmap write lock
    // (file growth), sampled with random schedules
    let growth = ["write_extend_last", "write_relocate", "create"];
    let mut triples = vec![];
    for g in growth {
        for i in 0..RAW_OPS.len() {
            for j in i..RAW_OPS.len() {
                triples.push(format!("c11|{g}|{}|{}", RAW_OPS[i], RAW_OPS[j]));
            }
        }
    }
    let mut rng = Rng::derive(ctx.seed, &[11]);
    rng.shuffle(&mut triples);
    // directed triples from the lock-order graph of the pair phase: op A holds X and takes Y, op B
    // holds Y and takes X; where one of the two conflicts is reader/reader it needs a queued
    // writer on that lock (writer preference) - any op that write-locks that class
    let parse = |k: &str| -> Option<((String, char), (String, char))> {
        let (l, r) = k.split_once(" -> ")?;
        let r = r.split(' ').next()?;
        let p = |x: &str| -> Option<(String, char)> {
            let (c, m) = x.split_once('(')?;
            Some((c.to_string(), m.chars().next()?))
        };
        Some((p(l)?, p(r)?))
    };
    let edges: Vec<(((String, char), (String, char)), BTreeSet<String>)> = agg.edges.iter().filter(|(k, _)| !k.starts_with("acq:")).filter_map(|(k, v)| parse(k).map(|e| (e, v.clone()))).collect();
    let writers_of = |class: &str| -> BTreeSet<String> { agg.edges.get(&format!("acq:{class}(W)")).cloned().unwrap_or_default() };
    let mut directed: BTreeSet<(String, (String, char, String, char, char, char, String))> = BTreeSet::new();
    let mut pair_cycles: BTreeSet<(String, (String, String, char, char))> = BTreeSet::new();
    for (((x, m1), (y, m2)), ops_a) in &edges {
        for (((y2, m3), (x2, m4)), ops_b) in &edges {
            if x != x2 || y != y2 || x == y {
                continue;
            }
            let x_conflict = *m1 == 'W' || *m4 == 'W';
            let y_conflict = *m3 == 'W' || *m2 == 'W';
            let mut thirds: BTreeSet<String> = BTreeSet::new();
            if !x_conflict {
                thirds.extend(writers_of(x));
            }
            if !y_conflict {
                thirds.extend(writers_of(y));
            }
            if x_conflict && y_conflict {
                // a two-thread cycle: drive each of the two to its critical request in both orders
                for a in ops_a {
                    for b in ops_b {
                        if RAW_OPS.contains(&a.as_str()) && RAW_OPS.contains(&b.as_str()) {
                            pair_cycles.insert((format!("c11|{a}|{b}"), (x.clone(), y.clone(), *m2, *m4)));
                        }
                    }
                }
                continue;
            }
            for a in ops_a {
                for b in ops_b {
                    for w in &thirds {
                        if RAW_OPS.contains(&a.as_str()) && RAW_OPS.contains(&b.as_str()) && RAW_OPS.contains(&w.as_str()) {
                            let wclass = if !x_conflict && writers_of(x).contains(w) { x.clone() } else { y.clone() };
                            directed.insert((format!("c11|{w}|{a}|{b}"), (x.clone(), *m1, y.clone(), *m2, *m3, *m4, wclass)));
                        }
                    }
                }
            }
        }
    }
    let n_directed = directed.len();
    if std::env::var("VERIF_DEBUG_SCHED").is_ok() {
        eprintln!("directed triples: {directed:?}");
    }
    let before_directed = agg.scenarios;
    let directed_deadline = ctx.elapsed() + (deadline - ctx.elapsed()) * 0.7;
    for (key, (x, y, m2, m4)) in &pair_cycles {
        if ctx.elapsed() > directed_deadline || report.failures_seen() >= 8 {
            break;
        }
        use rawdb::verif::Mode as LM;
        let md = |c: char| if c == 'W' { LM::Exclusive } else { LM::Shared };
        // thread 0 = A (holds X, takes Y), thread 1 = B (holds Y, takes X)
        let ta = (0usize, y.clone(), md(*m2), Some(x.clone()));
        let tb = (1usize, x.clone(), md(*m4), Some(y.clone()));
        let ex = explore(key, Mode::Guided(vec![vec![ta.clone(), tb.clone()], vec![tb, ta]]), directed_deadline, ctx);
        agg.absorb(ctx, &report, "C11", key, ex, true);
    }
    let n_pair_cycles = pair_cycles.len();
    // one candidate of every cycle shape first, then the second of every shape, ...
    let mut buckets: BTreeMap<String, Vec<&(String, (String, char, String, char, char, char, String))>> = BTreeMap::new();
    for d in &directed {
        let (x, m1, y, m2, m3, m4, w) = &d.1;
        buckets.entry(format!("{x}{m1}{y}{m2}{m3}{m4}{w}")).or_default().push(d);
    }
    let mut ordered = vec![];
    let depth = buckets.values().map(|b| b.len()).max().unwrap_or(0);
    for i in 0..depth {
        for b in buckets.values() {
            if let Some(d) = b.get(i) {
                ordered.push(*d);
            }
        }
    }
    for (key, (x, _m1, y, m2, _m3, m4, wclass)) in ordered {
        if ctx.elapsed() > directed_deadline || report.failures_seen() >= 8 {
            break;
        }
        // thread 0 = the writer-preference thread W, 1 = A (holds X, takes Y), 2 = B (holds Y, takes X)
        use rawdb::verif::Mode as LM;
        let md = |c: char| if c == 'W' { LM::Exclusive } else { LM::Shared };
        let tw = (0usize, wclass.clone(), LM::Exclusive, None);
        let ta = (1usize, y.clone(), md(*m2), Some(x.clone()));
        let tb = (2usize, x.clone(), md(*m4), Some(y.clone()));
        let mut plans = vec![];
        for order in [[0, 1, 2], [0, 2, 1], [1, 0, 2], [1, 2, 0], [2, 0, 1], [2, 1, 0]] {
            let all = [tw.clone(), ta.clone(), tb.clone()];
            plans.push(order.iter().map(|&i| all[i].clone()).collect::<Vec<_>>());
        }
        let ex = explore(key, Mode::Guided(plans), directed_deadline, ctx);
        agg.absorb(ctx, &report, "C11", key, ex, true);
        // plus a sample of undirected schedules of the same triple
        let ex = explore(key, Mode::Mixed { random_first: ctx.pick(6, 100), seed: rng.next_u64(), max_preempt: 2, max_runs: ctx.pick(0, 1500) }, directed_deadline, ctx);
        agg.absorb(ctx, &report, "C11", key, ex, true);
    }
    let directed_done = agg.scenarios - before_directed;
    let before = agg.scenarios;
    for key in &triples {
        if ctx.elapsed() > deadline || report.failures_seen() >= 8 {
            break;
        }
        let ex = explore(key, Mode::Random { runs: ctx.pick(6, 40), seed: rng.next_u64() }, deadline, ctx);
        agg.absorb(ctx, &report, "C11", key, ex, true);
    }
    let mut cov = agg.coverage(RULE_SCHED);
    cov["operation_catalogue"] = json!(RAW_OPS);
    cov["pairs_explored"] = json!(agg.stats.get("pairs_explored"));
    cov["pairs_total"] = json!(pairs.len());
    cov["triples_explored"] = json!(agg.scenarios - before);
    cov["triples_total"] = json!(triples.len());
    cov["directed_triples_from_lock_order_cycles"] = json!({"candidates": n_directed, "explored": directed_done});
    cov["directed_pairs_from_lock_order_cycles"] = json!(n_pair_cycles);
    report.finish(ctx, "exploration", cov, &["read-write locks are writer-preferring (a queued writer blocks new readers), as the property states", "only a deadlock that persists when the same threads are released into the real locks in a child process is reported", "no thread keeps a reader alive across another call of its own"])
}

/// `--replay <file>`: re-runs the recorded schedule of the recorded scenario.
pub fn replay_sched(ctx: &Ctx) -> i32 {
    let path = ctx.replay.as_ref().unwrap();
    let Ok(text) = std::fs::read_to_string(path) else {
        eprintln!("cannot read {}", path.display());
        return 2;
    };
    let Ok(v) = serde_json::from_str::<Value>(&text) else { return 2 };
    let key = v["detail"]["scenario"].as_str().unwrap_or("").to_string();
    let schedule: Vec<usize> = v["detail"]["schedule"].as_array().map(|a| a.iter().filter_map(|x| x.as_u64().map(|x| x as usize)).collect()).unwrap_or_default();
    let mut ex = Explored::default();
    let Some(steps) = one_run(&key, Policy::Prefix(schedule.clone()), &mut ex) else {
        eprintln!("unknown scenario '{key}'");
        return 2;
    };
    println!("replayed scenario {key} with a forced schedule of {} choices ({} scheduling steps):", schedule.len(), steps.len());
    for (i, s) in steps.iter().enumerate() {
        println!("  {i:3}: thread {} of {:?} -> {}", s.chosen, s.enabled, s.what);
    }
    if let Some((d, _)) = ex.deadlocks.first() {
        println!("modelled deadlock: {}", d.signature);
        println!("confirmed in a child process: {:?}", confirm_deadlock(&key, &schedule));
        return 1;
    }
    match ex.failures.first() {
        Some((sig, what, _)) => {
            println!("VIOLATION property={} replay={} sig={sig} :: {what}", ctx.prop, path.display());
            1
        }
        None => {
            println!("OK replay passed");
            0
        }
    }
}

pub fn _unused(_: &dyn AnyVec, _: Tier) {}
