//! C01 / C02 (and the rawdb half of C13): sequential histories against the reference model,
//! with the layout walker after every step.

use std::collections::BTreeSet;

use serde_json::{Value, json};

use crate::{
    common::{Counter, Ctx, Report, Rng, TempDir, Violation, fnv, run_shards},
    rawmodel::{GenCfg, Mismatch, ROp, RawExec, gen_op},
};

pub struct HistoryOutcome {
    pub ops: Vec<ROp>,
    pub failed_at: Option<(usize, Mismatch)>,
    pub stats: Counter,
    pub shapes: BTreeSet<u64>,
    pub kinds: BTreeSet<&'static str>,
    pub open_cfg: (usize, usize),
}

pub const MIN_LENS: [usize; 6] = [0, 0, 4096, (1 << 20) - 4096, 1 << 20, 3 << 20];
pub const MIN_REGIONS: [usize; 5] = [0, 0, 0, 5, 300];

/// Replays a fixed op list from a fresh database. Ops that are not applicable are skipped.
pub fn replay_ops(ops: &[ROp], open_cfg: (usize, usize), tag: &str) -> HistoryOutcome {
    let tmp = TempDir::new(tag);
    let mut out = HistoryOutcome {
        ops: ops.to_vec(),
        failed_at: None,
        stats: Counter::default(),
        shapes: BTreeSet::new(),
        kinds: BTreeSet::new(),
        open_cfg,
    };
    let mut ex = match RawExec::new(tmp.path(), open_cfg.0, open_cfg.1) {
        Ok(e) => e,
        Err(e) => {
            out.failed_at = Some((0, Mismatch { sig: "open".into(), what: e }));
            return out;
        }
    };
    for (i, op) in ops.iter().enumerate() {
        if !applicable(op, &ex) {
            continue;
        }
        out.kinds.insert(op.kind());
        if let Err(m) = ex.step(op) {
            out.failed_at = Some((i, m));
            break;
        }
    }
    out.stats = ex.stats.clone();
    out.shapes = ex.shapes.clone();
    ex.close();
    out
}

fn applicable(op: &ROp, ex: &RawExec) -> bool {
    match op {
        ROp::BatchWrite { name, slots, vlen } => ex
            .model
            .regions
            .get(name)
            .is_some_and(|r| slots.iter().all(|&s| s + vlen <= r.bytes.len())),
        _ => true,
    }
}

pub fn run_history(rng: &mut Rng, cfg: &GenCfg, nops: usize, tag: &str) -> HistoryOutcome {
    let tmp = TempDir::new(tag);
    let open_cfg = (*rng.pick(&MIN_LENS), *rng.pick(&MIN_REGIONS));
    let mut out = HistoryOutcome {
        ops: vec![],
        failed_at: None,
        stats: Counter::default(),
        shapes: BTreeSet::new(),
        kinds: BTreeSet::new(),
        open_cfg,
    };
    let mut ex = match RawExec::new(tmp.path(), open_cfg.0, open_cfg.1) {
        Ok(e) => e,
        Err(e) => {
            out.failed_at = Some((0, Mismatch { sig: "open".into(), what: e }));
            return out;
        }
    };
    let mut counter = 0usize;
    for i in 0..nops {
        let op = gen_op(rng, &ex.model, cfg, &mut counter);
        out.ops.push(op.clone());
        out.kinds.insert(op.kind());
        if let Err(m) = ex.step(&op) {
            out.failed_at = Some((i, m));
            break;
        }
    }
    out.stats = ex.stats.clone();
    out.shapes = ex.shapes.clone();
    ex.close();
    out
}

/// ddmin-style shrink keeping the mismatch signature.
pub fn shrink(ops: &[ROp], open_cfg: (usize, usize), sig: &str, max_runs: usize) -> Vec<ROp> {
    let mut cur: Vec<ROp> = ops.to_vec();
    let mut runs = 0;
    let mut chunk = (cur.len() / 2).max(1);
    while chunk >= 1 && runs < max_runs {
        let mut i = 0;
        let mut progressed = false;
        while i < cur.len() && runs < max_runs {
            let mut cand = cur.clone();
            let end = (i + chunk).min(cand.len());
            cand.drain(i..end);
            runs += 1;
            let o = replay_ops(&cand, open_cfg, "shrink");
            if o.failed_at.as_ref().is_some_and(|(_, m)| m.sig == sig) {
                let at = o.failed_at.unwrap().0;
                cand.truncate(at + 1);
                cur = cand;
                progressed = true;
            } else {
                i += chunk;
            }
        }
        if chunk == 1 && !progressed {
            break;
        }
        chunk = if progressed { chunk } else { chunk / 2 };
        if chunk == 0 {
            break;
        }
    }
    cur
}

pub fn ops_json(ops: &[ROp]) -> Value {
    Value::Array(ops.iter().map(|o| o.to_json()).collect())
}

pub fn ops_hash(ops: &[ROp]) -> u64 {
    fnv(ops_json(ops).to_string().as_bytes())
}

pub struct RawCampaign {
    pub histories: u64,
    pub nontrivial: BTreeSet<u64>,
    pub stats: Counter,
    pub shapes: BTreeSet<u64>,
    pub samples: Vec<Value>,
    pub ops_total: u64,
}

/// Directed histories that reach every placement outcome and a reopen with holes.
pub fn directed_histories() -> Vec<Vec<ROp>> {
    let w = |n: &str, k: usize| ROp::Write { name: n.into(), n: k };
    let c = |n: &str| ROp::Create(n.into());
    vec![
        vec![
            c("a"), c("b"), c("c"),
            w("a", 100),               // fits
            w("c", 5000),              // extend last
            w("a", 5000),              // relocate to end (no hole)
            ROp::Flush,                // a's old extent becomes a hole
            w("b", 5000),              // relocate to end (hole too small)
            ROp::Flush,                // holes coalesce: 0..8192
            c("d"),                    // placed in the hole
            w("d", 5000),              // expand into the adjacent hole
            ROp::Remove("d".into()),
            ROp::Flush,
            c("e"), w("e", 3000),
            c("f"), w("f", 10),
            ROp::Remove("e".into()), ROp::Remove("f".into()), ROp::Flush,
            c("g"), w("g", 4096), w("g", 1),   // needs 8192: relocates into the 8 KiB hole? (g sits in it)
            ROp::Reopen,
            w("g", 20000),
            ROp::Compact,
            ROp::Reopen,
        ],
        vec![
            c("x"), c("y"), c("z"),
            w("x", 4000), w("y", 4000), w("z", 4000),
            w("x", 9000),              // relocate to end, leaves a 4 KiB hole pending
            ROp::Flush,
            ROp::Remove("y".into()),
            ROp::Flush,                // 0..8192 free
            c("s"), w("s", 10),
            w("z", 200),               // z: 4 KiB -> 8 KiB: not last, no adjacent hole -> relocate to hole or end
            ROp::Flush,
            c("t"), w("t", 5000),
            ROp::Rename { name: "t".into(), to: "t2".into() },
            ROp::Reopen,
            ROp::Truncate { name: "t2".into(), from: 10 },
            ROp::TruncateWrite { name: "x".into(), at: 100, n: 40000 },
            ROp::Reopen,
        ],
    ]
}

pub fn campaign(
    ctx: &Ctx,
    report: &Report,
    cfg: &GenCfg,
    secs: f64,
    sig_prefix: &str,
    tag: u64,
) -> RawCampaign {
    let mut total = RawCampaign {
        histories: 0,
        nontrivial: BTreeSet::new(),
        stats: Counter::default(),
        shapes: BTreeSet::new(),
        samples: vec![],
        ops_total: 0,
    };

    let mut handle = |o: HistoryOutcome, total: &mut RawCampaign, origin: Value| {
        total.histories += 1;
        total.ops_total += o.ops.len() as u64;
        total.stats.merge(&o.stats);
        total.shapes.extend(o.shapes.iter().copied());
        let relocated = o.stats.get("placement:relocate_to_hole")
            + o.stats.get("placement:relocate_to_end")
            > 0;
        if o.kinds.len() >= 5 && relocated && o.stats.get("op:flush") + o.stats.get("op:reopen") > 0 {
            total.nontrivial.insert(ops_hash(&o.ops));
        }
        if total.samples.len() < 2 && o.ops.len() > 5 {
            total.samples.push(json!({
                "origin": origin,
                "open": {"min_len": o.open_cfg.0, "min_regions": o.open_cfg.1},
                "ops": ops_json(&o.ops[..o.ops.len().min(40)]),
                "ops_total": o.ops.len(),
            }));
        }
        if let Some((at, m)) = o.failed_at {
            let sig = format!("{sig_prefix}|{}", m.sig);
            let small = if !report.should_shrink(&sig) {
                o.ops[..=at.min(o.ops.len() - 1)].to_vec()
            } else {
                shrink(&o.ops[..=at.min(o.ops.len().saturating_sub(1))], o.open_cfg, &m.sig, 150)
            };
            report.violation(
                ctx,
                Violation {
                    sig,
                    what: m.what.clone(),
                    detail: json!({
                        "origin": origin,
                        "open": {"min_len": o.open_cfg.0, "min_regions": o.open_cfg.1},
                        "failed_at_op": at,
                        "shrunk_ops": ops_json(&small),
                        "mismatch": m.what,
                    }),
                },
            );
        }
    };

    for (i, ops) in directed_histories().into_iter().enumerate() {
        let o = replay_ops(&ops, (0, 0), "directed");
        handle(o, &mut total, json!({"directed": i}));
    }

    let deadline = ctx.start.elapsed().as_secs_f64() + secs;
    let results = run_shards(ctx.threads, |shard| {
        let mut outs = vec![];
        let mut h = 0u64;
        while ctx.start.elapsed().as_secs_f64() < deadline {
            let mut rng = Rng::derive(ctx.seed, &[tag, shard as u64, h]);
            let nops = rng.range(20, 220);
            let mut cfg = cfg.clone();
            if rng.chance(1, 6) {
                cfg.max_write = 1_200_000;
            } else if rng.chance(1, 2) {
                cfg.max_write = 20_000;
            }
            cfg.max_regions = rng.range(1, 12);
            let o = run_history(&mut rng, &cfg, nops, "hist");
            if let Some((_, m)) = &o.failed_at
                && !report.is_known(&format!("{sig_prefix}|{}", m.sig))
            {
                report.note_failure();
            }
            outs.push((h, o));
            h += 1;
            if report.failures_seen() >= 6 {
                break;
            }
        }
        outs
    });
    for (shard, outs) in results.into_iter().enumerate() {
        for (h, o) in outs {
            handle(o, &mut total, json!({"shard": shard, "history": h}));
        }
    }
    total
}

const PLACEMENTS: [&str; 5] = [
    "placement:fits",
    "placement:extend_last",
    "placement:expand_adjacent_hole",
    "placement:relocate_to_hole",
    "placement:relocate_to_end",
];

pub fn check_c01(ctx: &Ctx) -> i32 {
    let report = Report::new("C01");
    // refused requests (a rename onto a taken name, writes beyond the end, ...) are part of the
    // histories: whatever a refusal leaves behind must not show in any region's name, length or
    // bytes later on, in particular not after a reopen
    let cfg = GenCfg { allow_refusals: true, ..GenCfg::default() };
    let c = campaign(ctx, &report, &cfg, ctx.secs(25.0, 300.0), "C01", 1);
    for p in PLACEMENTS {
        if c.stats.get(p) == 0 {
            report.inconclusive(format!("required bin not reached: {p}"));
        }
    }
    if c.stats.get("reopen:with_holes") == 0 {
        report.inconclusive("required bin not reached: reopen with holes");
    }
    let coverage = json!({
        "evaluations": c.histories,
        "distinct_nontrivial": c.nontrivial.len(),
        "rule": "one evaluation = one operation history run from a fresh database with every live region read back and compared with the byte-vector model after every operation; non-trivial = >=5 distinct operation kinds, >=1 relocation of a region and >=1 flush or reopen; distinct = hash of the operation list",
        "samples": c.samples,
        "operations_executed": c.ops_total,
        "ops_by_kind": c.stats.0.iter().filter(|(k,_)| k.starts_with("op:")).map(|(k,v)| (k[3..].to_string(), json!(v))).collect::<serde_json::Map<_,_>>(),
        "placements": PLACEMENTS.iter().map(|p| (p[10..].to_string(), json!(c.stats.get(p)))).collect::<serde_json::Map<_,_>>(),
        "reopens_with_holes": c.stats.get("reopen:with_holes"),
        "reopen_dontcare_regions_dropped": c.stats.get("reopen:dontcare_dropped"),
        "layout_states_walked": c.stats.get("layout:states_walked"),
        "distinct_layout_shapes": c.shapes.len(),
    });
    report.finish(
        ctx,
        "exploration",
        coverage,
        &["sizes <= ~1.2 MiB per write; the >1 GiB punch sampling branch is not reached"],
    )
}

pub fn check_c02(ctx: &Ctx) -> i32 {
    let report = Report::new("C02");
    let cfg = GenCfg { churn: true, ..GenCfg::default() };
    let c = campaign(ctx, &report, &cfg, ctx.secs(25.0, 300.0), "C02", 2);
    for k in ["layout:coalesce_left", "layout:coalesce_right", "layout:coalesce_both", "reuse:judged_with_adequate_hole", "reuse:create_with_adequate_hole"] {
        if c.stats.get(k) == 0 {
            report.inconclusive(format!("required bin not reached: {k}"));
        }
    }
    let coverage = json!({
        "evaluations": c.stats.get("layout:states_walked"),
        "distinct_nontrivial": c.shapes.len(),
        "rule": "one evaluation = one quiescent state whose layout was walked under the library's own locks (regions, holes, pending holes, reservations: aligned, disjoint, gap-free up to Layout::len(), inside the file, no adjacent promoted holes, size index consistent, slot table consistent); distinct_nontrivial = distinct layout shapes (hash of the ordered sequence of extent kinds and sizes)",
        "samples": c.samples,
        "histories": c.histories,
        "max_simultaneous_holes": c.stats.get("layout:max_holes"),
        "max_simultaneous_pending_holes": c.stats.get("layout:max_pending"),
        "promotions": c.stats.get("layout:promotions"),
        "coalescing": {"left": c.stats.get("layout:coalesce_left"), "right": c.stats.get("layout:coalesce_right"), "both": c.stats.get("layout:coalesce_both")},
        "placements_judged": {
            "relocation_with_adequate_hole": c.stats.get("reuse:judged_with_adequate_hole"),
            "relocation_without_adequate_hole": c.stats.get("reuse:judged_without_adequate_hole"),
            "creation_with_adequate_hole": c.stats.get("reuse:create_with_adequate_hole"),
            "creation_without_adequate_hole": c.stats.get("reuse:create_without_adequate_hole"),
        },
        "placements": PLACEMENTS.iter().map(|p| (p[10..].to_string(), json!(c.stats.get(p)))).collect::<serde_json::Map<_,_>>(),
        "reopens_with_holes": c.stats.get("reopen:with_holes"),
    });
    report.finish(
        ctx,
        "exploration",
        coverage,
        &["states are judged at quiescence only (between operations), under the library's own lock order"],
    )
}

/// rawdb half of C13: refused requests inside ordinary histories, judged by the same model
/// comparison + layout walk after the refusal and through the continuation.
pub fn c13_raw_campaign(ctx: &Ctx, report: &Report, secs: f64) -> RawCampaign {
    let cfg = GenCfg { allow_refusals: true, ..GenCfg::default() };
    campaign(ctx, report, &cfg, secs, "C13|raw", 13)
}
