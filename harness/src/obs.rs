//! The process-wide observer installed into `rawdb::verif`. It routes events to a per-thread
//! sink (sequential monitors: crash simulator, access checker) and, when a scheduler is
//! installed, lock traffic and points to the controlled scheduler (E-SCHED).

use std::{
    cell::RefCell,
    rc::Rc,
    sync::{Arc, OnceLock},
};

use parking_lot::RwLock;
use rawdb::verif::{Event, Mode, Observer};

pub type Sink = Rc<dyn Fn(&Event<'_>)>;

thread_local! {
    static SINK: RefCell<Option<Sink>> = const { RefCell::new(None) };
}

/// Cross-thread handler (scheduler / free-running delay injector).
pub trait Global: Send + Sync {
    fn event(&self, _e: &Event<'_>) {}
    fn lock_pre(&self, _addr: usize, _mode: Mode) -> bool {
        false
    }
    fn lock_failed(&self, _addr: usize, _mode: Mode) {}
    fn lock_acquired(&self, _addr: usize, _mode: Mode) {}
    fn lock_released(&self, _addr: usize, _mode: Mode) {}
}

static GLOBAL: OnceLock<RwLock<Option<Arc<dyn Global>>>> = OnceLock::new();

fn global() -> Option<Arc<dyn Global>> {
    GLOBAL.get_or_init(|| RwLock::new(None)).read().clone()
}

pub fn set_global(g: Option<Arc<dyn Global>>) {
    *GLOBAL.get_or_init(|| RwLock::new(None)).write() = g;
}

struct Router;

impl Observer for Router {
    fn event(&self, e: &Event<'_>) {
        let sink = SINK.with(|s| s.borrow().clone());
        if let Some(s) = sink {
            // events caused by the sink itself are not delivered
            rawdb::verif::mute(|| s(e));
        }
        if let Some(g) = global() {
            g.event(e);
        }
    }
    fn lock_pre(&self, addr: usize, mode: Mode) -> bool {
        match global() {
            Some(g) => g.lock_pre(addr, mode),
            None => false,
        }
    }
    fn lock_failed(&self, addr: usize, mode: Mode) {
        if let Some(g) = global() {
            g.lock_failed(addr, mode);
        }
    }
    fn lock_acquired(&self, addr: usize, mode: Mode) {
        if let Some(g) = global() {
            g.lock_acquired(addr, mode);
        }
    }
    fn lock_released(&self, addr: usize, mode: Mode) {
        if let Some(g) = global() {
            g.lock_released(addr, mode);
        }
    }
}

pub fn install() {
    rawdb::verif::set_observer(Some(Arc::new(Router)));
}

/// Installs `sink` for the current thread for the duration of `f`.
pub fn with_sink<R>(sink: Sink, f: impl FnOnce() -> R) -> R {
    struct Guard(Option<Sink>);
    impl Drop for Guard {
        fn drop(&mut self) {
            let prev = self.0.take();
            SINK.with(|s| *s.borrow_mut() = prev);
        }
    }
    let prev = SINK.with(|s| s.borrow_mut().replace(sink));
    let _g = Guard(prev);
    f()
}
