//! Reference model, operation set and executor for vecdb's stored vectors.
//! Shared by C03, C04, C07, C08, C13, C14, C16, C19 and C20.

use std::{
    collections::{BTreeMap, BTreeSet},
    fmt::Debug,
    path::{Path, PathBuf},
};

use serde_json::{Value, json};
use vecdb::{
    AnyStoredVec, AnyVec, Bytes, BytesVec, Database, EagerVec, ImportOptions, ImportableVec,
    LZ4Vec, Pco, PcoVec, ReadableVec, Stamp, StoredVec, Version, WritableVec, ZeroCopyVec, ZstdVec,
};

use crate::common::{Counter, Rng, catch, normalize_msg};

// ---------------------------------------------------------------------------------------------
// Element types
// ---------------------------------------------------------------------------------------------

pub trait Elem: Copy + Debug + Send + Sync + 'static + crate::probes::Aggregates {
    const NAME: &'static str;
    const SIZE: usize = size_of::<Self>();
    /// Deterministic value for counter `x`; extremes appear regularly.
    fn make(x: u64) -> Self;
    /// Bit-exact identity.
    fn key(&self) -> u128;
}

fn scramble(x: u64) -> u64 {
    crate::common::mix64(x, 0xA5A5)
}

macro_rules! elem_int {
    ($t:ty, $name:expr) => {
        impl Elem for $t {
            const NAME: &'static str = $name;
            fn make(x: u64) -> Self {
                match x % 23 {
                    0 => <$t>::MAX,
                    1 => <$t>::MIN,
                    2 => 0 as $t,
                    3 => 1 as $t,
                    4..=12 => (x / 3) as $t, // slowly increasing runs (compressible)
                    _ => scramble(x) as $t,
                }
            }
            fn key(&self) -> u128 {
                *self as u128
            }
        }
    };
}
elem_int!(u8, "u8");
elem_int!(u16, "u16");
elem_int!(u32, "u32");
elem_int!(u64, "u64");
elem_int!(i64, "i64");

impl Elem for u128 {
    const NAME: &'static str = "u128";
    fn make(x: u64) -> Self {
        match x % 11 {
            0 => u128::MAX,
            1 => 0,
            _ => ((scramble(x) as u128) << 64) | scramble(x ^ 77) as u128,
        }
    }
    fn key(&self) -> u128 {
        *self
    }
}

impl Elem for f32 {
    const NAME: &'static str = "f32";
    fn make(x: u64) -> Self {
        match x % 17 {
            0 => f32::NAN,
            1 => f32::from_bits(0x7fc0_0001 | (x as u32 & 0xffff) << 1), // NaN payloads
            2 => f32::INFINITY,
            3 => f32::NEG_INFINITY,
            4 => -0.0,
            5 => 0.0,
            6 => f32::MIN_POSITIVE / 4.0, // subnormal
            7 => f32::MAX,
            8 => f32::MIN,
            9 => f32::from_bits(scramble(x) as u32), // any bit pattern
            _ => (x as f32) * 0.25,
        }
    }
    fn key(&self) -> u128 {
        self.to_bits() as u128
    }
}

impl Elem for f64 {
    const NAME: &'static str = "f64";
    fn make(x: u64) -> Self {
        match x % 17 {
            0 => f64::NAN,
            1 => f64::from_bits(0x7ff8_0000_0000_0001 | (x & 0xffff_ffff) << 1),
            2 => f64::INFINITY,
            3 => f64::NEG_INFINITY,
            4 => -0.0,
            5 => 0.0,
            6 => f64::MIN_POSITIVE / 8.0,
            7 => f64::MAX,
            8 => f64::MIN,
            9 => f64::from_bits(scramble(x)),
            _ => (x as f64) * 0.125,
        }
    }
    fn key(&self) -> u128 {
        self.to_bits() as u128
    }
}

macro_rules! elem_arr {
    ($n:expr, $name:expr) => {
        impl Elem for [u8; $n] {
            const NAME: &'static str = $name;
            fn make(x: u64) -> Self {
                let mut a = [0u8; $n];
                for (i, b) in a.iter_mut().enumerate() {
                    *b = (scramble(x.wrapping_add(i as u64 / 8)) >> ((i % 8) * 8)) as u8;
                }
                if x % 13 == 0 {
                    a = [0xff; $n];
                }
                a
            }
            fn key(&self) -> u128 {
                // identity over all bytes (33 bytes do not fit: fold with a strong mix)
                let mut h: u128 = 0x6c62_272e_07bb_0142_62b8_2175_6295_c58d;
                for &b in self.iter() {
                    h ^= b as u128;
                    h = h.wrapping_mul(0x0000_0000_0100_0000_0000_0000_0000_013B);
                }
                h
            }
        }
    };
}
elem_arr!(3, "[u8;3]");
elem_arr!(16, "[u8;16]");
elem_arr!(33, "[u8;33]");

#[derive(Debug, Clone, Copy, PartialEq, Bytes)]
pub struct WB(pub u64);
impl Elem for WB {
    const NAME: &'static str = "derive(Bytes)(u64)";
    fn make(x: u64) -> Self {
        WB(u64::make(x))
    }
    fn key(&self) -> u128 {
        self.0 as u128
    }
}

#[derive(Debug, Clone, Copy, PartialEq, Pco)]
pub struct WP(pub u32);
impl Elem for WP {
    const NAME: &'static str = "derive(Pco)(u32)";
    fn make(x: u64) -> Self {
        WP(u32::make(x))
    }
    fn key(&self) -> u128 {
        self.0 as u128
    }
}

pub fn keys<T: Elem>(v: &[T]) -> Vec<u128> {
    v.iter().map(|x| x.key()).collect()
}

// ---------------------------------------------------------------------------------------------
// VecLike: uniform access to the seven vector types
// ---------------------------------------------------------------------------------------------

pub type VResult<T> = vecdb::Result<T>;

pub trait VecLike: Sized + ReadableVec<usize, Self::E> + 'static {
    type E: Elem;
    type RO: ReadableVec<usize, Self::E> + vecdb::TypedVec<I = usize, T = Self::E> + Clone + 'static;
    const FORMAT: &'static str;
    const RAW: bool;
    const EAGER: bool = false;
    /// Values per 16 KiB page for compressed formats (0 for raw).
    fn per_page() -> usize {
        if Self::RAW { 0 } else { 16 * 1024 / size_of::<Self::E>() }
    }

    fn v_import(db: &Database, name: &str, version: Version, keep: u16) -> VResult<Self>;
    fn v_forced_import(db: &Database, name: &str, version: Version, keep: u16) -> VResult<Self>;
    /// the three-argument entry points (no options)
    fn v_import3(db: &Database, name: &str, version: Version) -> VResult<Self>;
    fn v_forced_import3(db: &Database, name: &str, version: Version) -> VResult<Self>;

    fn v_len(&self) -> usize;
    fn v_push(&mut self, v: Self::E);
    fn v_truncate(&mut self, i: usize) -> VResult<()>;
    fn v_write(&mut self) -> VResult<bool>;
    fn v_flush(&mut self) -> VResult<()>;
    fn v_stamped_write(&mut self, s: u64) -> VResult<()>;
    fn v_commit(&mut self, s: u64) -> VResult<()>;
    fn v_rollback(&mut self) -> VResult<()>;
    fn v_rollback_before(&mut self, s: u64) -> VResult<u64>;
    fn v_reset(&mut self) -> VResult<()>;
    fn v_reset_unsaved(&mut self);
    fn v_checked_push(&mut self, i: usize, v: Self::E) -> VResult<()>;
    fn v_stamp(&self) -> u64;
    fn v_stored_len(&self) -> usize;
    fn v_real_stored_len(&self) -> usize;
    fn v_is_dirty(&self) -> bool;
    fn v_region_names(&self) -> Vec<String>;
    fn v_db(&self) -> Database;
    fn v_ro(&self) -> Self::RO;
    fn v_boxed(&self) -> vecdb::ReadableBoxedVec<usize, Self::E>;
    fn v_changes_dir(&self) -> PathBuf;
    fn v_computed_version(&self) -> u32;
    fn v_fold_stored_io(&self, _from: usize, _to: usize) -> Option<Vec<Self::E>> {
        None
    }
    fn v_fold_stored_mmap(&self, _from: usize, _to: usize) -> Option<Vec<Self::E>> {
        None
    }

    // raw formats only
    fn v_update(&mut self, _i: usize, _v: Self::E) -> VResult<()> {
        unreachable!()
    }
    fn v_delete(&mut self, _i: usize) {
        unreachable!()
    }
    fn v_take(&mut self, _i: usize) -> VResult<Option<Self::E>> {
        unreachable!()
    }
    fn v_fill(&mut self, _v: Self::E) -> VResult<usize> {
        unreachable!()
    }
    fn v_holes(&self) -> Vec<usize> {
        vec![]
    }
    fn v_collect_holed(&self) -> VResult<Vec<Option<Self::E>>> {
        unreachable!()
    }
    /// Point reader over stored values: (len, get(i) for i in idx)
    fn v_reader_get(&self, _idx: &[usize]) -> Option<(usize, Vec<Option<Self::E>>)> {
        None
    }
    fn v_ro_reader_get(_ro: &Self::RO, _idx: &[usize]) -> Option<(usize, Vec<Option<Self::E>>)> {
        None
    }
    fn v_read_ref(&self, _i: usize) -> Option<Option<Self::E>> {
        None
    }
}

fn opts<'a>(db: &'a Database, name: &'a str, version: Version, keep: u16) -> ImportOptions<'a> {
    ImportOptions::new(db, name, version).with_saved_stamped_changes(keep)
}

macro_rules! common_methods {
    () => {
        fn v_import(db: &Database, name: &str, version: Version, keep: u16) -> VResult<Self> {
            <Self as ImportableVec>::import_with(opts(db, name, version, keep))
        }
        fn v_forced_import(db: &Database, name: &str, version: Version, keep: u16) -> VResult<Self> {
            <Self as ImportableVec>::forced_import_with(opts(db, name, version, keep))
        }
        fn v_import3(db: &Database, name: &str, version: Version) -> VResult<Self> {
            <Self as ImportableVec>::import(db, name, version)
        }
        fn v_forced_import3(db: &Database, name: &str, version: Version) -> VResult<Self> {
            <Self as ImportableVec>::forced_import(db, name, version)
        }
        fn v_len(&self) -> usize {
            AnyVec::len(self)
        }
        fn v_push(&mut self, v: Self::E) {
            WritableVec::push(self, v)
        }
        fn v_truncate(&mut self, i: usize) -> VResult<()> {
            WritableVec::truncate_if_needed_at(self, i)
        }
        fn v_write(&mut self) -> VResult<bool> {
            AnyStoredVec::write(self)
        }
        fn v_flush(&mut self) -> VResult<()> {
            AnyStoredVec::flush(self)
        }
        fn v_stamped_write(&mut self, s: u64) -> VResult<()> {
            AnyStoredVec::stamped_write(self, Stamp::new(s))
        }
        fn v_commit(&mut self, s: u64) -> VResult<()> {
            WritableVec::stamped_write_with_changes(self, Stamp::new(s))
        }
        fn v_rollback(&mut self) -> VResult<()> {
            WritableVec::rollback(self)
        }
        fn v_rollback_before(&mut self, s: u64) -> VResult<u64> {
            WritableVec::rollback_before(self, Stamp::new(s)).map(u64::from)
        }
        fn v_reset(&mut self) -> VResult<()> {
            WritableVec::reset(self)
        }
        fn v_reset_unsaved(&mut self) {
            WritableVec::reset_unsaved(self)
        }
        fn v_checked_push(&mut self, i: usize, v: Self::E) -> VResult<()> {
            WritableVec::checked_push_at(self, i, v)
        }
        fn v_stamp(&self) -> u64 {
            u64::from(AnyStoredVec::stamp(self))
        }
        fn v_stored_len(&self) -> usize {
            AnyStoredVec::stored_len(self)
        }
        fn v_real_stored_len(&self) -> usize {
            AnyStoredVec::real_stored_len(self)
        }
        fn v_is_dirty(&self) -> bool {
            WritableVec::is_dirty(self)
        }
        fn v_region_names(&self) -> Vec<String> {
            AnyVec::region_names(self)
        }
        fn v_db(&self) -> Database {
            AnyStoredVec::db(self)
        }
        fn v_ro(&self) -> Self::RO {
            StoredVec::read_only_clone(self)
        }
        fn v_boxed(&self) -> vecdb::ReadableBoxedVec<usize, Self::E> {
            vecdb::ReadableCloneableVec::read_only_boxed_clone(self)
        }
        fn v_changes_dir(&self) -> PathBuf {
            AnyStoredVec::db_path(self).join("changes").join(AnyVec::region_name(self))
        }
        fn v_computed_version(&self) -> u32 {
            u32::from(AnyStoredVec::header(self).computed_version())
        }
    };
}

macro_rules! raw_methods {
    () => {
        fn v_update(&mut self, i: usize, v: Self::E) -> VResult<()> {
            self.update_at(i, v)
        }
        fn v_delete(&mut self, i: usize) {
            self.delete_at(i)
        }
        fn v_take(&mut self, i: usize) -> VResult<Option<Self::E>> {
            let reader = self.create_reader();
            let r = self.take_at(i, &reader);
            drop(reader);
            r
        }
        fn v_fill(&mut self, v: Self::E) -> VResult<usize> {
            self.fill_first_hole_or_push(v)
        }
        fn v_holes(&self) -> Vec<usize> {
            self.holes().iter().copied().collect()
        }
        fn v_collect_holed(&self) -> VResult<Vec<Option<Self::E>>> {
            self.collect_holed()
        }
        fn v_reader_get(&self, idx: &[usize]) -> Option<(usize, Vec<Option<Self::E>>)> {
            let r = self.reader();
            let len = r.len();
            let out = idx.iter().map(|&i| r.try_get(i)).collect();
            // in-range `get` must agree with `try_get`
            for &i in idx {
                if i < len {
                    let a = r.get(i);
                    let b = r.try_get(i).unwrap();
                    assert!(a.key() == b.key(), "VecReader::get and try_get disagree");
                }
            }
            Some((len, out))
        }
        fn v_ro_reader_get(ro: &Self::RO, idx: &[usize]) -> Option<(usize, Vec<Option<Self::E>>)> {
            let r = ro.reader();
            let len = r.len();
            Some((len, idx.iter().map(|&i| r.try_get(i)).collect()))
        }
        fn v_fold_stored_io(&self, from: usize, to: usize) -> Option<Vec<Self::E>> {
            Some(self.fold_stored_io(from, to, vec![], |mut a, v| {
                a.push(v);
                a
            }))
        }
        fn v_fold_stored_mmap(&self, from: usize, to: usize) -> Option<Vec<Self::E>> {
            Some(self.fold_stored_mmap(from, to, vec![], |mut a, v| {
                a.push(v);
                a
            }))
        }
    };
}

macro_rules! compressed_methods {
    () => {
        fn v_fold_stored_io(&self, from: usize, to: usize) -> Option<Vec<Self::E>> {
            Some(self.fold_stored_io(from, to, vec![], |mut a, v| {
                a.push(v);
                a
            }))
        }
        fn v_fold_stored_mmap(&self, from: usize, to: usize) -> Option<Vec<Self::E>> {
            Some(self.fold_stored_mmap(from, to, vec![], |mut a, v| {
                a.push(v);
                a
            }))
        }
    };
}

impl<T: Elem + vecdb::BytesVecValue> VecLike for BytesVec<usize, T> {
    type E = T;
    type RO = <Self as StoredVec>::ReadOnly;
    const FORMAT: &'static str = "Bytes";
    const RAW: bool = true;
    common_methods!();
    raw_methods!();
}

impl<T: Elem + vecdb::ZeroCopyVecValue> VecLike for ZeroCopyVec<usize, T> {
    type E = T;
    type RO = <Self as StoredVec>::ReadOnly;
    const FORMAT: &'static str = "ZeroCopy";
    const RAW: bool = true;
    common_methods!();
    raw_methods!();
    fn v_read_ref(&self, i: usize) -> Option<Option<Self::E>> {
        let reader = self.create_reader();
        let r = self.read_ref_at(i, &reader).copied();
        drop(reader);
        Some(r)
    }
}

impl<T: Elem + vecdb::PcoVecValue> VecLike for PcoVec<usize, T> {
    type E = T;
    type RO = <Self as StoredVec>::ReadOnly;
    const FORMAT: &'static str = "Pco";
    const RAW: bool = false;
    common_methods!();
    compressed_methods!();
}

impl<T: Elem + vecdb::LZ4VecValue> VecLike for LZ4Vec<usize, T> {
    type E = T;
    type RO = <Self as StoredVec>::ReadOnly;
    const FORMAT: &'static str = "LZ4";
    const RAW: bool = false;
    common_methods!();
    compressed_methods!();
}

impl<T: Elem + vecdb::ZstdVecValue> VecLike for ZstdVec<usize, T> {
    type E = T;
    type RO = <Self as StoredVec>::ReadOnly;
    const FORMAT: &'static str = "Zstd";
    const RAW: bool = false;
    common_methods!();
    compressed_methods!();
}

impl<T: Elem + vecdb::BytesVecValue> VecLike for EagerVec<BytesVec<usize, T>> {
    type E = T;
    type RO = <BytesVec<usize, T> as StoredVec>::ReadOnly;
    const FORMAT: &'static str = "Eager<Bytes>";
    // hole/update operations are not reachable through the wrapper
    const RAW: bool = false;
    const EAGER: bool = true;
    fn per_page() -> usize {
        0
    }
    common_methods!();
}

impl<T: Elem + vecdb::PcoVecValue> VecLike for EagerVec<PcoVec<usize, T>> {
    type E = T;
    type RO = <PcoVec<usize, T> as StoredVec>::ReadOnly;
    const FORMAT: &'static str = "Eager<Pco>";
    const RAW: bool = false;
    const EAGER: bool = true;
    common_methods!();
}

// ---------------------------------------------------------------------------------------------
// Operations
// ---------------------------------------------------------------------------------------------

#[derive(Debug, Clone, PartialEq)]
pub enum VOp {
    Push(usize),
    Truncate(usize),
    Write,
    Flush,
    StampedWrite(u64),
    Reset,
    ResetUnsaved,
    /// flush + db.flush + drop + import (same entry point, same version)
    Reimport,
    /// like Reimport, with another retention setting (saved_stamped_changes)
    ReimportKeep(u16),
    Update(usize),
    Delete(usize),
    Take(usize),
    Fill,
    Commit(u64),
    Rollback,
    RollbackBefore(u64),
    // refused requests (C13)
    BadUpdate(usize),
    BadCheckedPush(usize),
    /// plain import of the open vector's name with another version / as another format
    BadImportVersion,
    BadImportFormat,
}

impl VOp {
    pub fn kind(&self) -> &'static str {
        match self {
            VOp::Push(_) => "push",
            VOp::Truncate(_) => "truncate",
            VOp::Write => "write",
            VOp::Flush => "flush",
            VOp::StampedWrite(_) => "stamped_write",
            VOp::Reset => "reset",
            VOp::ResetUnsaved => "reset_unsaved",
            VOp::Reimport => "reimport",
            VOp::ReimportKeep(_) => "reimport_keep",
            VOp::Update(_) => "update",
            VOp::Delete(_) => "delete",
            VOp::Take(_) => "take",
            VOp::Fill => "fill_first_hole_or_push",
            VOp::Commit(_) => "commit",
            VOp::Rollback => "rollback",
            VOp::RollbackBefore(_) => "rollback_before",
            VOp::BadUpdate(_) => "bad_update",
            VOp::BadCheckedPush(_) => "bad_checked_push",
            VOp::BadImportVersion => "bad_import_version",
            VOp::BadImportFormat => "bad_import_format",
        }
    }

    pub fn to_json(&self) -> Value {
        match self {
            VOp::Push(n) => json!(["push", n]),
            VOp::Truncate(i) => json!(["truncate", i]),
            VOp::StampedWrite(s) => json!(["stamped_write", s]),
            VOp::Update(i) => json!(["update", i]),
            VOp::Delete(i) => json!(["delete", i]),
            VOp::Take(i) => json!(["take", i]),
            VOp::Commit(s) => json!(["commit", s]),
            VOp::ReimportKeep(k) => json!(["reimport_keep", k]),
            VOp::RollbackBefore(s) => json!(["rollback_before", s]),
            VOp::BadUpdate(i) => json!(["bad_update", i]),
            VOp::BadCheckedPush(i) => json!(["bad_checked_push", i]),
            other => json!([other.kind()]),
        }
    }
}

impl VOp {
    pub fn from_json(v: &Value) -> Option<VOp> {
        let a = v.as_array()?;
        let k = a.first()?.as_str()?;
        let n = || a.get(1).and_then(|x| x.as_u64());
        Some(match k {
            "push" => VOp::Push(n()? as usize),
            "truncate" => VOp::Truncate(n()? as usize),
            "write" => VOp::Write,
            "flush" => VOp::Flush,
            "stamped_write" => VOp::StampedWrite(n()?),
            "reset" => VOp::Reset,
            "reset_unsaved" => VOp::ResetUnsaved,
            "reimport" => VOp::Reimport,
            "reimport_keep" => VOp::ReimportKeep(n()? as u16),
            "update" => VOp::Update(n()? as usize),
            "delete" => VOp::Delete(n()? as usize),
            "take" => VOp::Take(n()? as usize),
            "fill_first_hole_or_push" => VOp::Fill,
            "commit" => VOp::Commit(n()?),
            "rollback" => VOp::Rollback,
            "rollback_before" => VOp::RollbackBefore(n()?),
            "bad_update" => VOp::BadUpdate(n()? as usize),
            "bad_checked_push" => VOp::BadCheckedPush(n()? as usize),
            "bad_import_version" => VOp::BadImportVersion,
            "bad_import_format" => VOp::BadImportFormat,
            _ => return None,
        })
    }
}

pub fn vops_json(ops: &[VOp]) -> Value {
    Value::Array(ops.iter().map(|o| o.to_json()).collect())
}

// ---------------------------------------------------------------------------------------------
// Model
// ---------------------------------------------------------------------------------------------

#[derive(Debug, Clone)]
pub struct VState<T> {
    pub items: Vec<Option<T>>,
    pub stamp: u64,
}

#[derive(Debug, Clone)]
pub struct VModel<T> {
    pub cur: VState<T>,
    /// value counter (next pushed/updated value is `T::make(counter)`)
    pub counter: u64,
    /// committed states, oldest first; the last one is the state of the latest commit/rollback
    pub chain: Vec<VState<T>>,
    /// change files on disk: stamp -> chain position of the state that record was written for
    pub files: BTreeMap<u64, usize>,
    pub keep: u16,
    /// what a stored-only view (read-only clone, VecReader) must show: the contents as of the
    /// last `write()`; `None` while it is not determined (after a rollback and before the next write)
    pub stored: Option<Vec<T>>,
}

#[derive(Debug, Clone, PartialEq)]
pub enum VOutcome {
    Ok,
    OkStamp(u64),
    OkOpt(Option<u128>),
    OkIndex(usize),
    Err(&'static str),
}

impl<T: Elem> VModel<T> {
    pub fn new(keep: u16) -> Self {
        let base = VState { items: vec![], stamp: 0 };
        Self {
            cur: base.clone(),
            counter: 1,
            chain: vec![base],
            files: BTreeMap::new(),
            keep,
            stored: Some(vec![]),
        }
    }

    pub fn len(&self) -> usize {
        self.cur.items.len()
    }

    pub fn holes(&self) -> Vec<usize> {
        self.cur
            .items
            .iter()
            .enumerate()
            .filter(|(_, v)| v.is_none())
            .map(|(i, _)| i)
            .collect()
    }

    pub fn dense(&self) -> Vec<T> {
        self.cur.items.iter().flatten().copied().collect()
    }

    fn next(&mut self) -> T {
        let v = T::make(self.counter);
        self.counter += 1;
        v
    }

    fn mark_written(&mut self) {
        // a stored-only view shows every slot's last written value; deleted slots keep theirs,
        // which the model does not track: only determined while there are no deleted slots
        if self.cur.items.iter().all(|x| x.is_some()) {
            self.stored = Some(self.dense());
        } else {
            self.stored = None;
        }
    }

    /// How many consecutive rollbacks are possible from the current committed state.
    pub fn undo_depth(&self) -> usize {
        let mut depth = 0;
        let mut pos = self.chain.len() - 1;
        while pos > 0 {
            let st = self.chain[pos].stamp;
            if self.files.get(&st) == Some(&pos) {
                depth += 1;
                pos -= 1;
            } else {
                break;
            }
        }
        depth
    }

    pub fn apply(&mut self, op: &VOp) -> VOutcome {
        match op {
            VOp::Push(n) => {
                for _ in 0..*n {
                    let v = self.next();
                    self.cur.items.push(Some(v));
                }
                VOutcome::Ok
            }
            VOp::Truncate(i) => {
                if *i < self.cur.items.len() {
                    self.cur.items.truncate(*i);
                }
                // a truncation below the stored length is published to stored-only views at once
                if let Some(s) = self.stored.as_mut()
                    && *i < s.len()
                {
                    s.truncate(*i);
                }
                VOutcome::Ok
            }
            VOp::Write | VOp::Flush | VOp::Reimport => {
                self.mark_written();
                VOutcome::Ok
            }
            VOp::ReimportKeep(k) => {
                self.keep = *k;
                self.mark_written();
                VOutcome::Ok
            }
            VOp::StampedWrite(s) => {
                self.cur.stamp = *s;
                self.mark_written();
                VOutcome::Ok
            }
            VOp::Reset => {
                self.cur = VState { items: vec![], stamp: 0 };
                self.chain = vec![self.cur.clone()];
                self.files.clear();
                // reset() publishes length 0 at once
                self.stored = Some(vec![]);
                VOutcome::Ok
            }
            VOp::ResetUnsaved => VOutcome::Ok,
            VOp::Update(i) => {
                if *i < self.cur.items.len() {
                    let v = self.next();
                    self.cur.items[*i] = Some(v);
                    VOutcome::Ok
                } else {
                    VOutcome::Err("IndexTooHigh")
                }
            }
            VOp::BadUpdate(i) => {
                let _ = i;
                VOutcome::Err("IndexTooHigh")
            }
            VOp::BadCheckedPush(_) => VOutcome::Err("UnexpectedIndex"),
            VOp::BadImportVersion => VOutcome::Err("DifferentVersion"),
            VOp::BadImportFormat => VOutcome::Err("DifferentFormat"),
            VOp::Delete(i) => {
                if *i < self.cur.items.len() {
                    self.cur.items[*i] = None;
                }
                VOutcome::Ok
            }
            VOp::Take(i) => {
                if *i < self.cur.items.len() {
                    let v = self.cur.items[*i].take();
                    VOutcome::OkOpt(v.map(|x| x.key()))
                } else {
                    VOutcome::OkOpt(None)
                }
            }
            VOp::Fill => {
                let v = self.next();
                if let Some(h) = self.cur.items.iter().position(|x| x.is_none()) {
                    self.cur.items[h] = Some(v);
                    VOutcome::OkIndex(h)
                } else {
                    self.cur.items.push(Some(v));
                    VOutcome::OkIndex(self.cur.items.len() - 1)
                }
            }
            VOp::Commit(s) => {
                let from = self.cur.stamp;
                self.cur.stamp = *s;
                if self.keep > 0 {
                    // records of an abandoned future (at or above the new stamp, or above the
                    // stamp this commit starts from) are dropped, the oldest beyond k-1 pruned
                    self.files.retain(|&st, _| st < *s && st <= from);
                    while self.files.len() > self.keep as usize - 1 {
                        let first = *self.files.keys().next().unwrap();
                        self.files.remove(&first);
                    }
                    self.chain.push(self.cur.clone());
                    self.files.insert(*s, self.chain.len() - 1);
                } else {
                    self.chain = vec![self.cur.clone()];
                }
                self.mark_written();
                VOutcome::Ok
            }
            VOp::Rollback => {
                if self.undo_depth() == 0 {
                    return VOutcome::Err("no-change-record");
                }
                self.chain.pop();
                self.cur = self.chain.last().unwrap().clone();
                self.stored = None;
                VOutcome::Ok
            }
            VOp::RollbackBefore(s) => {
                let mut moved = false;
                while self.cur.stamp >= *s && self.undo_depth() > 0 {
                    self.chain.pop();
                    self.cur = self.chain.last().unwrap().clone();
                    moved = true;
                }
                if moved {
                    self.stored = None;
                }
                VOutcome::OkStamp(self.cur.stamp)
            }
        }
    }
}

// ---------------------------------------------------------------------------------------------
// Executor
// ---------------------------------------------------------------------------------------------

#[derive(Debug, Clone)]
pub struct VMismatch {
    pub sig: String,
    pub what: String,
}

pub struct VecExec<V: VecLike> {
    pub db: Database,
    pub dir: PathBuf,
    pub vec: Option<V>,
    pub model: VModel<V::E>,
    pub name: String,
    pub version: Version,
    pub forced: bool,
    pub stats: Counter,
    pub last_op_committed: bool,
    /// a read-only clone taken at the end of the previous probe (C08/C20): clones share the stored
    /// length with the writer and must keep observing its later states
    pub old_ro: Option<V::RO>,
}

fn classify_err(e: &vecdb::Error) -> &'static str {
    match e {
        vecdb::Error::IndexTooHigh { .. } => "IndexTooHigh",
        vecdb::Error::UnexpectedIndex { .. } => "UnexpectedIndex",
        vecdb::Error::DifferentVersion { .. } => "DifferentVersion",
        vecdb::Error::DifferentFormat { .. } => "DifferentFormat",
        vecdb::Error::StampMismatch { .. } => "StampMismatch",
        vecdb::Error::WrongLength { .. } => "WrongLength",
        vecdb::Error::CorruptedRegion { .. } => "CorruptedRegion",
        vecdb::Error::IO(_) => "IO",
        vecdb::Error::RawDB(rawdb::Error::WriteOutOfBounds { .. }) => "RawDB:WriteOutOfBounds",
        vecdb::Error::RawDB(_) => "RawDB",
        vecdb::Error::Overflow => "Overflow",
        vecdb::Error::Underflow => "Underflow",
        vecdb::Error::ExpectVecToHaveIndex => "ExpectVecToHaveIndex",
        vecdb::Error::DecompressionMismatch { .. } => "DecompressionMismatch",
        _ => "other",
    }
}

impl<V: VecLike> VecExec<V> {
    pub fn new(dir: &Path, name: &str, keep: u16, forced: bool) -> Result<Self, String> {
        let db = Database::open(dir).map_err(|e| format!("open: {e}"))?;
        let version = Version::new(1);
        let vec = if forced {
            V::v_forced_import(&db, name, version, keep)
        } else {
            V::v_import(&db, name, version, keep)
        }
        .map_err(|e| format!("import: {e}"))?;
        Ok(Self {
            db,
            dir: dir.to_path_buf(),
            vec: Some(vec),
            model: VModel::new(keep),
            name: name.to_string(),
            version,
            forced,
            stats: Counter::default(),
            last_op_committed: true,
            old_ro: None,
        })
    }

    pub fn v(&self) -> &V {
        self.vec.as_ref().unwrap()
    }

    pub fn vm(&mut self) -> &mut V {
        self.vec.as_mut().unwrap()
    }

    fn run_impl(&mut self, op: &VOp, model_before: &VModel<V::E>) -> Result<VOutcome, String> {
        let mut counter = model_before.counter;
        let mut next = || {
            let v = <V::E as Elem>::make(counter);
            counter += 1;
            v
        };
        let keep = self.model.keep;
        let name = self.name.clone();
        let version = self.version;
        let forced = self.forced;
        let db = self.db.clone();
        let slot = &mut self.vec;
        let r = catch(move || -> VResult<VOutcome> {
            let v = slot.as_mut().unwrap();
            Ok(match op {
                VOp::Push(n) => {
                    for _ in 0..*n {
                        v.v_push(next());
                    }
                    VOutcome::Ok
                }
                VOp::Truncate(i) => {
                    v.v_truncate(*i)?;
                    VOutcome::Ok
                }
                VOp::Write => {
                    v.v_write()?;
                    VOutcome::Ok
                }
                VOp::Flush => {
                    v.v_flush()?;
                    VOutcome::Ok
                }
                VOp::StampedWrite(s) => {
                    v.v_stamped_write(*s)?;
                    VOutcome::Ok
                }
                VOp::Reset => {
                    v.v_reset()?;
                    VOutcome::Ok
                }
                VOp::ResetUnsaved => {
                    v.v_reset_unsaved();
                    VOutcome::Ok
                }
                VOp::Reimport | VOp::ReimportKeep(_) => {
                    let keep = if let VOp::ReimportKeep(k) = op { *k } else { keep };
                    v.v_flush()?;
                    db.flush()?;
                    *slot = None;
                    let nv = if forced {
                        V::v_forced_import(&db, &name, version, keep)?
                    } else {
                        V::v_import(&db, &name, version, keep)?
                    };
                    *slot = Some(nv);
                    VOutcome::Ok
                }
                VOp::Update(i) | VOp::BadUpdate(i) => {
                    let val = next();
                    v.v_update(*i, val)?;
                    VOutcome::Ok
                }
                VOp::BadCheckedPush(i) => {
                    let val = next();
                    v.v_checked_push(*i, val)?;
                    VOutcome::Ok
                }
                VOp::BadImportVersion => {
                    let _other = V::v_import(&db, &name, version + Version::new(1), keep)?;
                    VOutcome::Ok
                }
                VOp::BadImportFormat => {
                    if V::FORMAT.contains("LZ4") {
                        let _o = <BytesVec<usize, u8> as ImportableVec>::import_with(opts(&db, &name, version, keep))?;
                    } else {
                        let _o = <LZ4Vec<usize, u8> as ImportableVec>::import_with(opts(&db, &name, version, keep))?;
                    }
                    VOutcome::Ok
                }
                VOp::Delete(i) => {
                    v.v_delete(*i);
                    VOutcome::Ok
                }
                VOp::Take(i) => VOutcome::OkOpt(v.v_take(*i)?.map(|x| x.key())),
                VOp::Fill => VOutcome::OkIndex(v.v_fill(next())?),
                VOp::Commit(s) => {
                    v.v_commit(*s)?;
                    VOutcome::Ok
                }
                VOp::Rollback => {
                    v.v_rollback()?;
                    VOutcome::Ok
                }
                VOp::RollbackBefore(s) => VOutcome::OkStamp(v.v_rollback_before(*s)?),
            })
        });
        match r {
            Ok(Ok(o)) => Ok(o),
            Ok(Err(e)) => Ok(VOutcome::Err(classify_err(&e))),
            Err(p) => Err(p),
        }
    }

    /// Executes `op` on both sides and compares. `Err` = first mismatch.
    pub fn step(&mut self, op: &VOp) -> Result<(), VMismatch> {
        self.stats.bump(&format!("op:{}", op.kind()));
        if matches!(op, VOp::Reimport | VOp::ReimportKeep(_) | VOp::BadImportVersion | VOp::BadImportFormat) {
            // every handle on the vector's regions must be gone before it is imported again
            self.old_ro = None;
        }
        let before = self.model.clone();
        let pre = (
            self.v().v_stored_len(),
            self.v().v_real_stored_len(),
            self.v().v_len(),
            self.holes_region_exists(),
        );
        let mut m2 = self.model.clone();
        let expected = m2.apply(op);
        let refusal = matches!(expected, VOutcome::Err(_));
        let snap_before = if refusal { Some(self.full_snapshot()) } else { None };
        let got = match self.run_impl(op, &before) {
            Ok(g) => g,
            Err(p) => {
                return Err(VMismatch {
                    sig: format!("panic|{}|{}", op.kind(), normalize_msg(&p)),
                    what: format!("{} panicked: {p}", op.kind()),
                });
            }
        };
        let outcome_ok = match (&expected, &got) {
            (a, b) if a == b => true,
            // any error class is accepted where the model expects a refusal without naming it
            (VOutcome::Err("no-change-record"), VOutcome::Err(_)) => true,
            // a foreign format carries another layer version: either mismatch may be named
            (VOutcome::Err("DifferentFormat"), VOutcome::Err("DifferentVersion")) => true,
            // rollback_before with nothing to undo and no change directory may report the IO error
            (VOutcome::OkStamp(s), VOutcome::Err("IO")) if matches!(op, VOp::RollbackBefore(_)) && *s == before.cur.stamp && before.undo_depth() == 0 && before.files.is_empty() => {
                m2 = before.clone();
                true
            }
            _ => false,
        };
        if !outcome_ok {
            return Err(VMismatch {
                sig: format!("outcome|{}|expected={:?}|got={:?}", op.kind(), sig_outcome(&expected), sig_outcome(&got)),
                what: format!("{:?}: expected {:?}, got {:?}", op, expected, got),
            });
        }
        self.model = m2;
        if let Some(b) = snap_before {
            self.stats.bump(&format!("refused:{}", op.kind()));
            let a = self.full_snapshot();
            if a != b {
                let diff: Vec<String> = a
                    .iter()
                    .filter(|(k, v)| b.get(*k) != Some(v))
                    .map(|(k, _)| k.clone())
                    .chain(b.keys().filter(|k| !a.contains_key(*k)).cloned())
                    .take(4)
                    .collect();
                return Err(VMismatch {
                    sig: format!("refused-call-had-effect|{}", op.kind()),
                    what: format!("{:?} returned an error but changed {:?}", op, diff),
                });
            }
        }
        self.classify_write(op, pre);
        self.last_op_committed = matches!(op, VOp::Commit(_) | VOp::Rollback | VOp::RollbackBefore(_) | VOp::Reimport | VOp::ReimportKeep(_));
        self.compare(op.kind())
    }

    fn classify_write(&mut self, op: &VOp, pre: (usize, usize, usize, bool)) {
        if !matches!(op, VOp::Write | VOp::Flush | VOp::StampedWrite(_) | VOp::Commit(_) | VOp::Reimport | VOp::ReimportKeep(_)) {
            return;
        }
        let (stored, real, len, had_holes) = pre;
        let pushed = len - stored.min(len);
        let f = V::FORMAT;
        if V::RAW {
            if pushed > 0 {
                self.stats.bump(&format!("regime:{f}:new_data"));
            }
            if stored < real {
                self.stats.bump(&format!("regime:{f}:truncated"));
            }
            if stored > real {
                self.stats.bump(&format!("regime:{f}:expanded"));
            }
            let has_holes = self.holes_region_exists();
            if has_holes && !had_holes {
                self.stats.bump(&format!("regime:{f}:holes_region_created"));
            }
            if !has_holes && had_holes {
                self.stats.bump(&format!("regime:{f}:holes_region_removed"));
            }
        } else if V::per_page() > 0 {
            let pp = V::per_page();
            let partial = stored % pp;
            if stored < real && pushed == 0 {
                if partial == 0 {
                    self.stats.bump(&format!("regime:{f}:boundary_truncate"));
                } else {
                    self.stats.bump(&format!("regime:{f}:truncate_into_page"));
                }
            }
            if pushed > 0 {
                if partial != 0 && stored == real && partial + pushed < pp {
                    self.stats.bump(&format!("regime:{f}:fast_raw_append"));
                } else if partial != 0 {
                    self.stats.bump(&format!("regime:{f}:partial_reencode"));
                } else {
                    self.stats.bump(&format!("regime:{f}:fresh_pages"));
                }
                if (stored + pushed) / pp > stored / pp {
                    self.stats.bump(&format!("regime:{f}:raw_to_compressed_transition"));
                }
            }
        }
    }

    /// Compares the observable state of the vector with the model.
    pub fn compare(&self, after: &str) -> Result<(), VMismatch> {
        let v = self.v();
        let m = &self.model;
        let r = catch(|| -> Result<(), VMismatch> {
            let mk = |kind: &str, what: String| VMismatch {
                sig: format!("{kind}|after={after}"),
                what: format!("after {after}: {what}"),
            };
            if v.v_len() != m.len() {
                return Err(mk("len", format!("len {} but model {}", v.v_len(), m.len())));
            }
            if v.v_stamp() != m.cur.stamp {
                return Err(mk("stamp", format!("stamp {} but model {}", v.v_stamp(), m.cur.stamp)));
            }
            if V::RAW {
                let holes = v.v_holes();
                if holes != m.holes() {
                    return Err(mk("holes", format!("holes {:?} but model {:?}", &holes[..holes.len().min(8)], &m.holes()[..m.holes().len().min(8)])));
                }
                let got = v.v_collect_holed().map_err(|e| mk("collect_holed-error", format!("collect_holed failed: {e}")))?;
                let want = &m.cur.items;
                if got.len() != want.len() {
                    return Err(mk("holed-len", format!("collect_holed returned {} slots, model {}", got.len(), want.len())));
                }
                for (i, (g, w)) in got.iter().zip(want).enumerate() {
                    if g.map(|x| x.key()) != w.map(|x| x.key()) {
                        return Err(mk("element", format!("slot {i}: got {:?}, model {:?}", g, w)));
                    }
                }
            }
            let got = ReadableVec::collect(v);
            let want = m.dense();
            if got.len() != want.len() {
                return Err(mk("collect-len", format!("collect() returned {} elements, model {}", got.len(), want.len())));
            }
            for (i, (g, w)) in got.iter().zip(&want).enumerate() {
                if g.key() != w.key() {
                    return Err(mk("element", format!("collect()[{i}] = {:?}, model {:?}", g, w)));
                }
            }
            Ok(())
        });
        match r {
            Ok(x) => x,
            Err(p) => Err(VMismatch {
                sig: format!("panic|compare|{}", normalize_msg(&p)),
                what: format!("reading back after {after} panicked: {p}"),
            }),
        }
    }

    /// Everything a refused call must leave alone: every region of the database (name, start,
    /// reserved, length, content hash), the file length, the change-directory listing (with sizes)
    /// and the vector's own volatile view.
    pub fn full_snapshot(&self) -> BTreeMap<String, String> {
        let mut out = BTreeMap::new();
        let names: Vec<String> = self.db.regions().id_to_index().keys().cloned().collect();
        for n in names {
            if let Some(r) = self.db.get_region(&n) {
                let (start, reserved, len) = {
                    let m = r.meta();
                    (m.start(), m.reserved(), m.len())
                };
                let h = crate::common::fnv(r.create_reader().read_all());
                out.insert(format!("region:{n}"), format!("{start}/{reserved}/{len}/{h:x}"));
            }
        }
        out.insert("file_len".into(), format!("{}", self.db.file_len()));
        if let Ok(rd) = std::fs::read_dir(self.v().v_changes_dir()) {
            for e in rd.flatten() {
                let size = e.metadata().map(|m| m.len()).unwrap_or(0);
                out.insert(format!("change:{}", e.file_name().to_string_lossy()), format!("{size}"));
            }
        }
        let v = self.v();
        out.insert("vec".into(), format!("len={} stored={} real={} stamp={} dirty={} holes={:?} cv={}", v.v_len(), v.v_stored_len(), v.v_real_stored_len(), v.v_stamp(), v.v_is_dirty(), v.v_holes(), v.v_computed_version()));
        out
    }

    pub fn holes_region_exists(&self) -> bool {
        self.v()
            .v_region_names()
            .first()
            .is_some_and(|n| self.db.get_region(&format!("{n}_holes")).is_some())
    }

    /// Names of the change files currently on disk.
    pub fn change_files(&self) -> BTreeSet<u64> {
        let mut out = BTreeSet::new();
        if let Ok(rd) = std::fs::read_dir(self.v().v_changes_dir()) {
            for e in rd.flatten() {
                if let Some(s) = e.file_name().to_str().and_then(|s| s.parse::<u64>().ok()) {
                    out.insert(s);
                }
            }
        }
        out
    }
}

fn sig_outcome(o: &VOutcome) -> String {
    match o {
        VOutcome::Ok => "Ok".into(),
        VOutcome::OkStamp(_) => "OkStamp".into(),
        VOutcome::OkOpt(x) => format!("OkOpt({})", if x.is_some() { "some" } else { "none" }),
        VOutcome::OkIndex(_) => "OkIndex".into(),
        VOutcome::Err(e) => format!("Err({e})"),
    }
}

// ---------------------------------------------------------------------------------------------
// Generator
// ---------------------------------------------------------------------------------------------

#[derive(Debug, Clone)]
pub struct VGenCfg {
    pub raw_ops: bool,
    pub rollback: bool,
    pub refusals: bool,
    pub per_page: usize,
    pub allow_reset: bool,
    pub allow_reimport: bool,
    /// next commit stamp source
    pub big_pushes: bool,
}

fn gen_push_len(rng: &mut Rng, per_page: usize, len: usize, big: bool) -> usize {
    let pp = if per_page == 0 { 512 } else { per_page };
    match rng.below(12) {
        0 | 1 | 2 => rng.range(1, 5),
        3 | 4 => rng.range(1, 60),
        5 if big => {
            // land exactly on / around the next page boundary
            let to_boundary = pp - (len % pp);
            match rng.below(4) {
                0 => to_boundary,
                1 => to_boundary.saturating_sub(1).max(1),
                2 => to_boundary + 1,
                _ => to_boundary + pp,
            }
        }
        6 if big => rng.range(pp / 2, pp + pp / 2),
        7 if big => rng.range(pp, 3 * pp),
        _ => rng.range(1, 200),
    }
}

fn gen_index(rng: &mut Rng, len: usize, per_page: usize, stored: usize) -> usize {
    if len == 0 {
        return rng.below(3);
    }
    let pp = if per_page == 0 { 512 } else { per_page };
    match rng.below(10) {
        0 => 0,
        1 => len - 1,
        2 => len,
        3 => len + 1 + rng.below(5),
        4 => stored.min(len),
        5 => stored.saturating_sub(1).min(len),
        6 => ((len / pp) * pp).min(len),
        7 => ((len / pp) * pp).saturating_sub(1).min(len),
        _ => rng.below(len),
    }
}

/// Generates the next operation. `committed` = the vector is in a committed state (nothing
/// pending) so that a rollback may be issued.
pub fn gen_vop<T: Elem>(
    rng: &mut Rng,
    model: &VModel<T>,
    cfg: &VGenCfg,
    stored_len: usize,
    committed: bool,
    next_stamp: &mut u64,
) -> VOp {
    let len = model.len();
    let idx = |rng: &mut Rng| gen_index(rng, len, cfg.per_page, stored_len);
    if cfg.rollback {
        // C04/C16 histories: only edits between commits; rollbacks from committed states
        let w = [
            26,                                   // 0 push
            8,                                    // 1 truncate
            if cfg.raw_ops { 8 } else { 0 },      // 2 update
            if cfg.raw_ops { 6 } else { 0 },      // 3 delete
            if cfg.raw_ops { 2 } else { 0 },      // 4 take
            if cfg.raw_ops { 3 } else { 0 },      // 5 fill
            22,                                   // 6 commit
            if committed { 14 } else { 0 },       // 7 rollback
            if committed { 5 } else { 0 },        // 8 rollback_before
            if committed && cfg.allow_reimport { 4 } else { 0 }, // 9 reimport
            if cfg.allow_reset { 1 } else { 0 },  // 10 reset
        ];
        return match rng.weighted(&w) {
            0 => VOp::Push(gen_push_len(rng, cfg.per_page, len, cfg.big_pushes)),
            1 => VOp::Truncate(idx(rng)),
            2 => VOp::Update(if len > 0 { rng.below(len) } else { 0 }),
            3 => VOp::Delete(idx(rng)),
            4 => VOp::Take(idx(rng)),
            5 => VOp::Fill,
            6 => {
                // mostly the next stamp; sometimes a gap; after a rollback the used stamp again
                let cur = model.cur.stamp;
                let s = match rng.below(6) {
                    0 => cur + 1 + rng.below(3) as u64,
                    _ => cur + 1,
                };
                *next_stamp = s;
                VOp::Commit(s)
            }
            7 => VOp::Rollback,
            8 => {
                let cur = model.cur.stamp;
                let target = match rng.below(5) {
                    0 => 0,
                    1 => cur + 1,
                    2 => cur,
                    _ => rng.below(cur as usize + 2) as u64,
                };
                VOp::RollbackBefore(target)
            }
            9 => {
                if rng.chance(1, 3) {
                    // only positive settings: switching retention off while records exist leaves a
                    // gap in the chain whose treatment the property does not define
                    if model.keep == 0 { VOp::Reimport } else { VOp::ReimportKeep(*rng.pick(&[1u16, 2, 3, 5])) }
                } else {
                    VOp::Reimport
                }
            }
            _ => VOp::Reset,
        };
    }
    let no_holes = model.cur.items.iter().all(|x| x.is_some());
    let w = [
        30,                                   // 0 push
        8,                                    // 1 truncate
        12,                                   // 2 write
        5,                                    // 3 flush
        4,                                    // 4 stamped write
        if cfg.allow_reset { 2 } else { 0 },  // 5 reset
        if cfg.allow_reimport { 5 } else { 0 }, // 6 reimport
        if cfg.raw_ops { 9 } else { 0 },      // 7 update
        if cfg.raw_ops { 7 } else { 0 },      // 8 delete
        if cfg.raw_ops { 3 } else { 0 },      // 9 take
        if cfg.raw_ops { 4 } else { 0 },      // 10 fill
        if cfg.refusals { 6 } else { 0 },     // 11 refusal
        if no_holes && stored_len == model.len().min(stored_len) { 0 } else { 0 }, // 12 (reserved)
    ];
    match rng.weighted(&w) {
        0 => VOp::Push(gen_push_len(rng, cfg.per_page, len, cfg.big_pushes)),
        1 => VOp::Truncate(idx(rng)),
        2 => VOp::Write,
        3 => VOp::Flush,
        4 => {
            *next_stamp += 1 + rng.below(3) as u64;
            VOp::StampedWrite(*next_stamp)
        }
        5 => VOp::Reset,
        6 => VOp::Reimport,
        7 => VOp::Update(if len > 0 { rng.below(len) } else { 0 }),
        8 => VOp::Delete(idx(rng)),
        9 => VOp::Take(idx(rng)),
        10 => VOp::Fill,
        11 => {
            if rng.chance(1, 4) {
                if rng.chance(1, 2) { VOp::BadImportVersion } else { VOp::BadImportFormat }
            } else if cfg.raw_ops && rng.chance(1, 2) {
                VOp::BadUpdate(len + rng.below(4))
            } else {
                let i = if rng.chance(1, 2) { len + 1 + rng.below(3) } else { len.saturating_sub(1 + rng.below(3)) };
                if i == len { VOp::BadCheckedPush(len + 1) } else { VOp::BadCheckedPush(i) }
            }
        }
        _ => VOp::Write,
    }
}
