//! Shared plumbing: PRNG, temp dirs, verdicts, known findings, evidence files.

use std::{
    collections::{BTreeMap, BTreeSet},
    fs,
    path::{Path, PathBuf},
    sync::{
        Mutex,
        atomic::{AtomicU64, AtomicUsize, Ordering},
    },
    time::Instant,
};

use serde_json::{Value, json};

pub const VERIF_ROOT: &str = "/verif";

/// Where evidence and replay files go: /verif, unless VERIF_OUT redirects them (used when the
/// monitors are tried against a seeded defect in a scratch copy, so that the committed evidence
/// is not overwritten).
/// Reduced workloads (set by the driver for the AddressSanitizer pass, which is 5-10x slower).
pub fn reduced() -> bool {
    std::env::var("VERIF_REDUCED").is_ok()
}

pub fn out_root() -> PathBuf {
    std::env::var("VERIF_OUT").ok().map(PathBuf::from).unwrap_or_else(|| PathBuf::from(VERIF_ROOT))
}

// ---------------------------------------------------------------------------------------------
// PRNG (xoshiro256** seeded through SplitMix64)
// ---------------------------------------------------------------------------------------------

#[derive(Clone, Debug)]
pub struct Rng {
    s: [u64; 4],
}

fn splitmix(x: &mut u64) -> u64 {
    *x = x.wrapping_add(0x9E37_79B9_7F4A_7C15);
    let mut z = *x;
    z = (z ^ (z >> 30)).wrapping_mul(0xBF58_476D_1CE4_E5B9);
    z = (z ^ (z >> 27)).wrapping_mul(0x94D0_49BB_1331_11EB);
    z ^ (z >> 31)
}

pub fn mix64(a: u64, b: u64) -> u64 {
    let mut x = a ^ b.rotate_left(32) ^ 0xD6E8_FEB8_6659_FD93;
    splitmix(&mut x)
}

impl Rng {
    pub fn new(seed: u64) -> Self {
        let mut x = seed;
        let s = [
            splitmix(&mut x),
            splitmix(&mut x),
            splitmix(&mut x),
            splitmix(&mut x),
        ];
        Self { s }
    }

    /// Derives an independent stream for (seed, tags...).
    pub fn derive(seed: u64, tags: &[u64]) -> Self {
        let mut h = seed;
        for &t in tags {
            h = mix64(h, t);
        }
        Self::new(h)
    }

    pub fn next_u64(&mut self) -> u64 {
        let r = self.s[1].wrapping_mul(5).rotate_left(7).wrapping_mul(9);
        let t = self.s[1] << 17;
        self.s[2] ^= self.s[0];
        self.s[3] ^= self.s[1];
        self.s[1] ^= self.s[2];
        self.s[0] ^= self.s[3];
        self.s[2] ^= t;
        self.s[3] = self.s[3].rotate_left(45);
        r
    }

    /// Uniform in `0..n` (n > 0).
    pub fn below(&mut self, n: usize) -> usize {
        debug_assert!(n > 0);
        (self.next_u64() % n as u64) as usize
    }

    /// Uniform in `lo..=hi`.
    pub fn range(&mut self, lo: usize, hi: usize) -> usize {
        lo + self.below(hi - lo + 1)
    }

    pub fn chance(&mut self, num: u32, den: u32) -> bool {
        (self.next_u64() % den as u64) < num as u64
    }

    pub fn pick<'a, T>(&mut self, xs: &'a [T]) -> &'a T {
        &xs[self.below(xs.len())]
    }

    /// Picks an index according to integer weights.
    pub fn weighted(&mut self, weights: &[u32]) -> usize {
        let total: u64 = weights.iter().map(|&w| w as u64).sum();
        let mut r = self.next_u64() % total.max(1);
        for (i, &w) in weights.iter().enumerate() {
            if r < w as u64 {
                return i;
            }
            r -= w as u64;
        }
        weights.len() - 1
    }

    pub fn shuffle<T>(&mut self, xs: &mut [T]) {
        for i in (1..xs.len()).rev() {
            let j = self.below(i + 1);
            xs.swap(i, j);
        }
    }
}

pub fn fnv(bytes: &[u8]) -> u64 {
    let mut h = 0xcbf2_9ce4_8422_2325u64;
    for &b in bytes {
        h ^= b as u64;
        h = h.wrapping_mul(0x0000_0100_0000_01B3);
    }
    h
}

// ---------------------------------------------------------------------------------------------
// Temp dirs
// ---------------------------------------------------------------------------------------------

static TMP_COUNTER: AtomicUsize = AtomicUsize::new(0);

pub fn tmp_root() -> PathBuf {
    let base = std::env::var("VERIF_TMP").ok().map(PathBuf::from).unwrap_or_else(|| {
        if Path::new("/dev/shm").is_dir() {
            PathBuf::from("/dev/shm")
        } else {
            std::env::temp_dir()
        }
    });
    base.join(format!("anydb-verif.{}", std::process::id()))
}

/// Removes the whole per-process scratch root (call at exit).
pub fn cleanup_tmp_root() {
    let _ = fs::remove_dir_all(tmp_root());
}

pub struct TempDir {
    path: PathBuf,
}

impl TempDir {
    pub fn new(tag: &str) -> Self {
        let n = TMP_COUNTER.fetch_add(1, Ordering::Relaxed);
        let path = tmp_root().join(format!("{tag}-{n}"));
        let _ = fs::remove_dir_all(&path);
        fs::create_dir_all(&path).expect("create temp dir");
        Self { path }
    }

    pub fn path(&self) -> &Path {
        &self.path
    }
}

impl Drop for TempDir {
    fn drop(&mut self) {
        let _ = fs::remove_dir_all(&self.path);
    }
}

// ---------------------------------------------------------------------------------------------
// Run context
// ---------------------------------------------------------------------------------------------

#[derive(Clone, Copy, Debug, PartialEq, Eq)]
pub enum Tier {
    Quick,
    Thorough,
}

impl Tier {
    pub fn as_str(self) -> &'static str {
        match self {
            Tier::Quick => "quick",
            Tier::Thorough => "thorough",
        }
    }
}

pub struct Ctx {
    pub prop: String,
    pub tier: Tier,
    pub seed: u64,
    pub start: Instant,
    pub threads: usize,
    pub replay: Option<PathBuf>,
    /// Budget multiplier from VERIF_BUDGET (float, default 1.0): scales exploration time.
    pub budget: f64,
}

impl Ctx {
    pub fn elapsed(&self) -> f64 {
        self.start.elapsed().as_secs_f64()
    }

    /// Exploration time budget in seconds for this tier.
    pub fn secs(&self, quick: f64, thorough: f64) -> f64 {
        self.budget
            * match self.tier {
                Tier::Quick => quick,
                Tier::Thorough => thorough,
            }
    }

    pub fn pick<T>(&self, quick: T, thorough: T) -> T {
        match self.tier {
            Tier::Quick => quick,
            Tier::Thorough => thorough,
        }
    }
}

// ---------------------------------------------------------------------------------------------
// Known findings
// ---------------------------------------------------------------------------------------------

#[derive(Debug, Clone)]
pub struct KnownFinding {
    pub property: String,
    pub sig: String,
    pub text: String,
}

pub fn load_known_findings() -> Vec<KnownFinding> {
    let path = Path::new(VERIF_ROOT).join("known-findings.txt");
    let Ok(s) = fs::read_to_string(path) else {
        return vec![];
    };
    let mut out = vec![];
    for line in s.lines() {
        let line = line.trim();
        let Some(rest) = line.strip_prefix("finding:") else {
            continue;
        };
        let (head, text) = match rest.split_once("::") {
            Some((h, t)) => (h.trim(), t.trim()),
            None => (rest.trim(), ""),
        };
        let mut property = String::new();
        let mut sig = String::new();
        for tok in head.split_whitespace() {
            if let Some(p) = tok.strip_prefix("property=") {
                property = p.to_string();
            } else if let Some(s) = tok.strip_prefix("sig=") {
                sig = s.to_string();
            }
        }
        if !property.is_empty() && !sig.is_empty() {
            out.push(KnownFinding {
                property,
                sig,
                text: text.to_string(),
            });
        }
    }
    out
}

// ---------------------------------------------------------------------------------------------
// Report: collects violations, known-finding hits, inconclusives and coverage.
// ---------------------------------------------------------------------------------------------

#[derive(Debug, Clone)]
pub struct Violation {
    pub sig: String,
    pub what: String,
    pub detail: Value,
}

pub struct Report {
    pub prop: String,
    known: Vec<KnownFinding>,
    inner: Mutex<ReportInner>,
    replay_counter: AtomicU64,
    failures_seen: AtomicU64,
    shrinks_done: AtomicU64,
}

#[derive(Default)]
struct ReportInner {
    violations: Vec<(Violation, PathBuf)>,
    violation_sigs: BTreeSet<String>,
    known_hits: BTreeMap<String, (usize, String)>,
    inconclusive: Vec<String>,
    harness_errors: Vec<String>,
}

impl Report {
    pub fn new(prop: &str) -> Self {
        Self {
            prop: prop.to_string(),
            known: load_known_findings(),
            inner: Mutex::new(ReportInner::default()),
            replay_counter: AtomicU64::new(0),
            failures_seen: AtomicU64::new(0),
            shrinks_done: AtomicU64::new(0),
        }
    }

    /// Called by exploration shards as soon as a history fails (before it is triaged), so that
    /// the other shards can stop early: a broken tree must not cost the whole budget.
    pub fn note_failure(&self) {
        self.failures_seen.fetch_add(1, Ordering::Relaxed);
    }

    pub fn failures_seen(&self) -> u64 {
        self.failures_seen.load(Ordering::Relaxed)
    }

    /// Shrinking is expensive: it is done for the first few distinct unlisted signatures only.
    pub fn should_shrink(&self, sig: &str) -> bool {
        if self.is_known(sig) {
            return false;
        }
        let already = self.inner.lock().unwrap().violation_sigs.contains(sig);
        !already && self.shrinks_done.fetch_add(1, Ordering::Relaxed) < 4
    }

    pub fn is_known(&self, sig: &str) -> bool {
        self.known
            .iter()
            .any(|k| k.property == self.prop && k.sig == sig)
    }

    /// Records a violation. Returns true when it is a *new* (unlisted) violation.
    pub fn violation(&self, ctx: &Ctx, v: Violation) -> bool {
        if let Some(k) = self
            .known
            .iter()
            .find(|k| k.property == self.prop && k.sig == v.sig)
        {
            let mut g = self.inner.lock().unwrap();
            let e = g
                .known_hits
                .entry(v.sig.clone())
                .or_insert((0, k.text.clone()));
            e.0 += 1;
            return false;
        }
        let mut g = self.inner.lock().unwrap();
        // One replay file per distinct signature (plus the first few repeats).
        let first = g.violation_sigs.insert(v.sig.clone());
        if !first && g.violations.len() >= 20 {
            return true;
        }
        let n = self.replay_counter.fetch_add(1, Ordering::Relaxed);
        let dir = out_root().join("replays");
        let _ = fs::create_dir_all(&dir);
        let path = dir.join(format!("{}-{}-{}.json", self.prop, ctx.seed, n));
        let body = json!({
            "property": self.prop,
            "seed": ctx.seed,
            "tier": ctx.tier.as_str(),
            "signature": v.sig,
            "what": v.what,
            "detail": v.detail,
        });
        let _ = fs::write(&path, serde_json::to_string_pretty(&body).unwrap());
        g.violations.push((v, path));
        true
    }

    pub fn inconclusive(&self, why: impl Into<String>) {
        self.inner.lock().unwrap().inconclusive.push(why.into());
    }

    pub fn harness_error(&self, why: impl Into<String>) {
        self.inner.lock().unwrap().harness_errors.push(why.into());
    }

    pub fn violation_count(&self) -> usize {
        self.inner.lock().unwrap().violations.len()
    }

    pub fn known_hit_count(&self) -> usize {
        self.inner
            .lock()
            .unwrap()
            .known_hits
            .values()
            .map(|v| v.0)
            .sum()
    }

    /// Writes the evidence file, prints verdict lines, returns the process exit code.
    pub fn finish(&self, ctx: &Ctx, level: &str, mut coverage: Value, assumptions: &[&str]) -> i32 {
        let g = self.inner.lock().unwrap();
        let cov = coverage.as_object_mut().expect("coverage must be an object");
        cov.insert(
            "inconclusive".into(),
            Value::Array(g.inconclusive.iter().map(|s| json!(s)).collect()),
        );
        cov.insert(
            "known_findings_hit".into(),
            Value::Array(
                g.known_hits
                    .iter()
                    .map(|(sig, (n, text))| json!({"sig": sig, "hits": n, "what": text}))
                    .collect(),
            ),
        );
        cov.insert(
            "violation_signatures".into(),
            Value::Array(g.violation_sigs.iter().map(|s| json!(s)).collect()),
        );
        let ev = json!({
            "property_id": self.prop,
            "tier": ctx.tier.as_str(),
            "seed": ctx.seed,
            "level": level,
            "coverage": coverage,
            "assumptions": assumptions,
            "wall_s": (ctx.elapsed() * 100.0).round() / 100.0,
            "violations": g.violations.len(),
        });
        let dir = out_root().join("evidence");
        let _ = fs::create_dir_all(&dir);
        let path = dir.join(format!("{}.json", self.prop));
        fs::write(&path, serde_json::to_string_pretty(&ev).unwrap()).expect("write evidence");

        for (sig, (n, text)) in &g.known_hits {
            println!(
                "KNOWN-FINDING: property={} sig={} hits={} {}",
                self.prop, sig, n, text
            );
        }
        for why in &g.inconclusive {
            println!("INCONCLUSIVE property={} {}", self.prop, why);
        }
        for why in &g.harness_errors {
            println!("HARNESS-ERROR property={} {}", self.prop, why);
        }
        let mut seen = BTreeSet::new();
        for (v, path) in &g.violations {
            if seen.insert(v.sig.clone()) {
                println!(
                    "VIOLATION property={} replay={} sig={} :: {}",
                    self.prop,
                    path.display(),
                    v.sig,
                    v.what
                );
            }
        }
        if !g.violations.is_empty() {
            1
        } else if !g.harness_errors.is_empty() {
            2
        } else {
            println!(
                "OK property={} tier={} seed={} wall_s={:.1} evidence={}",
                self.prop,
                ctx.tier.as_str(),
                ctx.seed,
                ctx.elapsed(),
                path.display()
            );
            0
        }
    }
}

// ---------------------------------------------------------------------------------------------
// Coverage helpers
// ---------------------------------------------------------------------------------------------

#[derive(Default, Debug, Clone)]
pub struct Counter(pub BTreeMap<String, u64>);

impl Counter {
    pub fn bump(&mut self, k: &str) {
        *self.0.entry(k.to_string()).or_insert(0) += 1;
    }
    pub fn add(&mut self, k: &str, n: u64) {
        *self.0.entry(k.to_string()).or_insert(0) += n;
    }
    pub fn get(&self, k: &str) -> u64 {
        self.0.get(k).copied().unwrap_or(0)
    }
    pub fn merge(&mut self, o: &Counter) {
        for (k, v) in &o.0 {
            *self.0.entry(k.clone()).or_insert(0) += v;
        }
    }
    pub fn to_json(&self) -> Value {
        Value::Object(self.0.iter().map(|(k, v)| (k.clone(), json!(v))).collect())
    }
}

/// Runs `f(shard)` on `n` threads and collects the results in shard order.
pub fn run_shards<R: Send>(n: usize, f: impl Fn(usize) -> R + Sync) -> Vec<R> {
    std::thread::scope(|s| {
        let hs: Vec<_> = (0..n)
            .map(|i| {
                let f = &f;
                std::thread::Builder::new()
                    .stack_size(16 << 20)
                    .spawn_scoped(s, move || f(i))
                    .unwrap()
            })
            .collect();
        hs.into_iter()
            .map(|h| h.join().expect("shard panicked (harness bug)"))
            .collect()
    })
}

thread_local! {
    static LAST_PANIC: std::cell::RefCell<Option<String>> = const { std::cell::RefCell::new(None) };
}

/// Installs a panic hook that records the message per thread instead of printing.
pub fn install_quiet_panic_hook() {
    std::panic::set_hook(Box::new(|info| {
        let msg = if let Some(s) = info.payload().downcast_ref::<&str>() {
            s.to_string()
        } else if let Some(s) = info.payload().downcast_ref::<String>() {
            s.clone()
        } else {
            "panic".to_string()
        };
        let loc = info
            .location()
            .map(|l| format!("{}:{}", l.file(), l.line()))
            .unwrap_or_default();
        if std::env::var("VERIF_SHOW_PANICS").is_ok() {
            eprintln!("panic: {msg} at {loc}\n{}", std::backtrace::Backtrace::force_capture());
        }
        LAST_PANIC.with(|p| *p.borrow_mut() = Some(format!("{msg} @ {loc}")));
    }));
}

pub fn take_last_panic() -> Option<String> {
    LAST_PANIC.with(|p| p.borrow_mut().take())
}

/// Runs `f`, converting a panic into `Err(message)`.
pub fn catch<R>(f: impl FnOnce() -> R) -> Result<R, String> {
    match std::panic::catch_unwind(std::panic::AssertUnwindSafe(f)) {
        Ok(r) => Ok(r),
        Err(_) => Err(take_last_panic().unwrap_or_else(|| "panic".into())),
    }
}

/// Strips line numbers / addresses so that panic messages can be used in signatures.
pub fn normalize_msg(s: &str) -> String {
    let mut out = String::new();
    let mut prev_digit = false;
    for c in s.chars() {
        if c.is_ascii_digit() {
            if !prev_digit {
                out.push('N');
            }
            prev_digit = true;
        } else {
            prev_digit = false;
            out.push(if c.is_whitespace() { '_' } else { c });
        }
    }
    out.truncate(120);
    out
}
