//! C15: lazy vectors (LazyVecFrom1/2/3, LazyDeltaVec with Sub/Avg/Change/Rate, LazyAggVec<Sparse>)
//! against their defining formula through every read API.

use std::{fmt::Debug, sync::Arc};

use serde_json::{Value, json};
use vecdb::{
    AnyStoredVec, AnyVec, BytesVec, Database, DeltaAvg, DeltaChange, DeltaRate, DeltaSub, ImportableVec, LZ4Vec,
    LazyAggVec, LazyDeltaVec, LazyVecFrom1, LazyVecFrom2, LazyVecFrom3, PcoVec, ReadableBoxedVec,
    ReadableCloneableVec, ReadableVec, Version, WritableVec, ZeroCopyVec, ZstdVec,
};

use crate::common::{Counter, Ctx, Report, Rng, TempDir, Tier, Violation, catch, fnv, normalize_msg, run_shards};

type Fail = (String, String);

/// A second index type ("week" next to "day"): a source keyed by it does not govern the length of
/// a lazy vector whose own index type is `usize`.
#[derive(Debug, Default, Clone, Copy, PartialEq, Eq, PartialOrd, Ord)]
pub struct Other(usize);
impl From<usize> for Other {
    fn from(v: usize) -> Self {
        Self(v)
    }
}
impl From<Other> for usize {
    fn from(v: Other) -> usize {
        v.0
    }
}
impl std::ops::Add<usize> for Other {
    type Output = Self;
    fn add(self, rhs: usize) -> Self {
        Self(self.0 + rhs)
    }
}
impl vecdb::PrintableIndex for Other {
    fn to_string() -> &'static str {
        "other"
    }
    fn to_possible_strings() -> &'static [&'static str] {
        &["other"]
    }
}

fn eq<T: PartialEq>(a: &[T], b: &[T]) -> bool {
    a.len() == b.len() && a.iter().zip(b).all(|(x, y)| x == y)
}

fn expect<T: Clone>(want: &[T], from: usize, to: usize) -> Vec<T> {
    let n = want.len();
    let (f, t) = (from.min(n), to.min(n));
    if f >= t { vec![] } else { want[f..t].to_vec() }
}

/// Every read API of `r` against `want` (what the defining formula yields for each index).
pub fn check_lazy<T, R>(r: &R, want: &[T], sentinel: T, rng: &mut Rng, exhaustive_ranges: bool, stats: &mut Counter) -> Result<(), Fail>
where
    T: Clone + PartialEq + Debug + Send + Sync + 'static,
    R: ReadableVec<usize, T>,
{
    let n = want.len();
    if r.len() != n {
        return Err(("len".into(), format!("len() = {} but the governing sources give {n}", r.len())));
    }
    let diff = |api: &str, from: usize, to: usize, got: &[T], w: &[T]| -> Fail {
        let at = got.iter().zip(w).position(|(a, b)| a != b);
        (format!("{api}|value"), format!("{api}({from},{to}) returned {} elements, formula gives {} (first difference at {at:?}: got {:?}, want {:?})", got.len(), w.len(), at.map(|i| &got[i]), at.map(|i| &w[i])))
    };
    let got = r.collect();
    if !eq(&got, want) {
        return Err(diff("collect", 0, n, &got, want));
    }
    let got = r.collect_dyn();
    if !eq(&got, want) {
        return Err(diff("collect_dyn", 0, n, &got, want));
    }
    let got = r.fold(vec![], |mut a, v| {
        a.push(v);
        a
    });
    if !eq(&got, want) {
        return Err(diff("fold", 0, n, &got, want));
    }
    if r.collect_first() != want.first().cloned() || r.collect_last() != want.last().cloned() {
        return Err(("collect_first_last|value".into(), "collect_first / collect_last differ from the formula".into()));
    }
    // ranges
    let mut ranges: Vec<(usize, usize)> = vec![(0, n), (0, usize::MAX), (n, 0), (usize::MAX, usize::MAX), (n, n + 3), (n + 1, n + 2)];
    if exhaustive_ranges {
        for f in 0..=n + 1 {
            for t in 0..=n + 1 {
                ranges.push((f, t));
            }
        }
    } else {
        let marks = [0usize, 1, 2047, 2048, 2049, 4095, 4096, 4097, n.saturating_sub(1), n, n + 1];
        for _ in 0..14 {
            let a = if rng.chance(1, 2) { *rng.pick(&marks) } else { rng.below(n + 2) };
            let b = if rng.chance(1, 2) { *rng.pick(&marks) } else { a + rng.below(60) };
            ranges.push(if rng.chance(1, 8) { (a.max(b), a.min(b)) } else { (a.min(b), a.max(b)) });
        }
    }
    for (from, to) in ranges {
        let w = expect(want, from, to);
        let got = r.collect_range_at(from, to);
        if !eq(&got, &w) {
            return Err(diff("collect_range_at", from, to, &got, &w));
        }
        let got = r.collect_range_dyn(from, to);
        if !eq(&got, &w) {
            return Err(diff("collect_range_dyn", from, to, &got, &w));
        }
        let mut buf = vec![sentinel.clone()];
        r.read_into_at(from, to, &mut buf);
        if buf.first() != Some(&sentinel) || !eq(&buf[1..], &w) {
            return Err(diff("read_into_at", from, to, &buf[1.min(buf.len())..], &w));
        }
        let got = r.fold_range_at(from, to, vec![], |mut a, v| {
            a.push(v);
            a
        });
        if !eq(&got, &w) {
            return Err(diff("fold_range_at", from, to, &got, &w));
        }
        let got: Result<Vec<T>, ()> = r.try_fold_range_at(from, to, vec![], |mut a, v| {
            a.push(v);
            Ok(a)
        });
        if !eq(got.as_ref().unwrap(), &w) {
            return Err(diff("try_fold_range_at", from, to, got.as_ref().unwrap(), &w));
        }
        if !w.is_empty() {
            let k = rng.below(w.len());
            let mut seen = vec![];
            let res: Result<(), usize> = r.try_fold_range_at(from, to, (), |(), v| {
                if seen.len() == k {
                    return Err(k);
                }
                seen.push(v);
                Ok(())
            });
            if res != Err(k) || !eq(&seen, &w[..k]) {
                return Err(("try_fold_range_at(early-exit)|value".into(), format!("early exit after {k} of ({from},{to})")));
            }
        }
        let mut got = vec![];
        r.for_each_range_dyn_at(from, to, &mut |v| got.push(v));
        if !eq(&got, &w) {
            return Err(diff("for_each_range_dyn_at", from, to, &got, &w));
        }
        let mut got = vec![];
        r.for_each_range_at(from, to, |v| got.push(v));
        if !eq(&got, &w) {
            return Err(diff("for_each_range_at", from, to, &got, &w));
        }
        stats.add("api:ranges", 8);
    }
    // index reads: in range -> the formula's value, out of range -> nothing
    let idxs: Vec<usize> = if n <= 12 { (0..n + 3).chain([usize::MAX]).collect() } else { (0..20).map(|_| rng.below(n + 2)).chain([0, n - 1, n, n + 1, usize::MAX]).collect() };
    for &i in &idxs {
        let w = want.get(i).cloned();
        if r.collect_one_at(i) != w {
            return Err(("collect_one_at|value".into(), format!("collect_one_at({i}) = {:?}, formula {:?} (len {n})", r.collect_one_at(i), w)));
        }
        if r.collect_one(i) != w {
            return Err(("collect_one|value".into(), format!("collect_one({i}) differs")));
        }
    }
    stats.add("api:index", idxs.len() as u64 * 2);
    // sorted reads with duplicates and an out-of-range tail
    let mut lists: Vec<Vec<usize>> = vec![];
    if n <= 6 {
        // all sorted lists of length <= 3 over 0..n+1 (duplicates included)
        let m = n + 2;
        for a in 0..m {
            lists.push(vec![a]);
            for b in a..m {
                lists.push(vec![a, b]);
                for c in b..m {
                    lists.push(vec![a, b, c]);
                }
            }
        }
        lists.push((0..n).collect());
    }
    for _ in 0..6 {
        let mut l: Vec<usize> = (0..rng.range(1, 40)).map(|_| rng.below(n + 3)).collect();
        if let Some(&x) = l.first() {
            l.push(x);
        }
        l.sort();
        l.push(n + 7);
        lists.push(l);
    }
    for l in &lists {
        let w: Vec<T> = l.iter().filter_map(|&i| want.get(i).cloned()).collect();
        let got = r.read_sorted_at(l);
        if !eq(&got, &w) {
            let mut f = diff("read_sorted_at", 0, 0, &got, &w);
            f.1 = format!("{} for indices {:?}", f.1, &l[..l.len().min(16)]);
            return Err(f);
        }
        let got = r.read_sorted(l);
        if !eq(&got, &w) {
            return Err(diff("read_sorted", 0, 0, &got, &w));
        }
    }
    stats.add("api:sorted", lists.len() as u64 * 2);
    // cursor
    let mut c = r.cursor();
    let mut pos = 0usize;
    for _ in 0..rng.range(2, 8) {
        match rng.below(3) {
            0 => {
                for _ in 0..rng.range(1, 4) {
                    let got = c.next();
                    if got != want.get(pos).cloned() {
                        return Err(("cursor.next|value".into(), format!("cursor.next() at {pos} = {got:?}, formula {:?}", want.get(pos))));
                    }
                    if pos < n {
                        pos += 1;
                    }
                }
            }
            1 => {
                let k = rng.below(n + 2);
                c.advance(k);
                pos = (pos + k).min(n);
            }
            _ => {
                let k = rng.below(n + 2);
                let got = c.fold(k, vec![], |mut a, v| {
                    a.push(v);
                    a
                });
                let end = (pos + k).min(n);
                if !eq(&got, &want[pos..end]) {
                    return Err(diff("cursor.fold", pos, end, &got, &want[pos..end]));
                }
                pos = end;
            }
        }
    }
    for &i in idxs.iter().take(10) {
        if c.get(i) != want.get(i).cloned() {
            return Err(("cursor.get|value".into(), format!("cursor.get({i}) differs from the formula")));
        }
    }
    stats.add("api:cursor", 1);
    Ok(())
}

// ---------------------------------------------------------------------------------------------
// Sources: stored vectors of u64 in every format, read through boxed read-only clones
// ---------------------------------------------------------------------------------------------

pub trait StoredOf<T: vecdb::VecValue>: ImportableVec + WritableVec<usize, T> + ReadableCloneableVec<usize, T> + AnyStoredVec + 'static {}
impl<T: vecdb::VecValue, V: ImportableVec + WritableVec<usize, T> + ReadableCloneableVec<usize, T> + AnyStoredVec + 'static> StoredOf<T> for V {}

pub trait SrcFmt: 'static {
    const F: &'static str;
    type V64: StoredOf<u64>;
    type V32: StoredOf<u32>;
}
pub struct FBytes;
pub struct FZeroCopy;
pub struct FPco;
pub struct FLZ4;
pub struct FZstd;
impl SrcFmt for FBytes {
    const F: &'static str = "Bytes";
    type V64 = BytesVec<usize, u64>;
    type V32 = BytesVec<usize, u32>;
}
impl SrcFmt for FZeroCopy {
    const F: &'static str = "ZeroCopy";
    type V64 = ZeroCopyVec<usize, u64>;
    type V32 = ZeroCopyVec<usize, u32>;
}
impl SrcFmt for FPco {
    const F: &'static str = "Pco";
    type V64 = PcoVec<usize, u64>;
    type V32 = PcoVec<usize, u32>;
}
impl SrcFmt for FLZ4 {
    const F: &'static str = "LZ4";
    type V64 = LZ4Vec<usize, u64>;
    type V32 = LZ4Vec<usize, u32>;
}
impl SrcFmt for FZstd {
    const F: &'static str = "Zstd";
    type V64 = ZstdVec<usize, u64>;
    type V32 = ZstdVec<usize, u32>;
}

struct Src<V, T> {
    v: V,
    data: Vec<T>,
}

impl<T: vecdb::VecValue + Copy, V: StoredOf<T>> Src<V, T> {
    fn new(db: &Database, name: &str) -> Self {
        Self { v: V::forced_import(db, name, Version::new(1)).expect("import source"), data: vec![] }
    }
    fn extend(&mut self, vals: impl IntoIterator<Item = T>) {
        for x in vals {
            self.v.push(x);
            self.data.push(x);
        }
        AnyStoredVec::flush(&mut self.v).expect("flush source");
    }
    fn boxed(&self) -> ReadableBoxedVec<usize, T> {
        self.v.read_only_boxed_clone()
    }
}

fn f1(i: usize, a: u64) -> u64 {
    a.wrapping_mul(3).wrapping_add(i as u64)
}
fn f2(i: usize, a: u64, b: u64) -> u64 {
    a.wrapping_mul(1000).wrapping_add(b).wrapping_add((i as u64) << 40)
}
fn f3(i: usize, a: u64, b: u64, c: u64) -> u64 {
    a.wrapping_mul(1_000_000).wrapping_add(b.wrapping_mul(1000)).wrapping_add(c) ^ ((i as u64) << 44)
}

#[derive(Debug, Clone)]
pub struct LFail {
    pub sig: String,
    pub what: String,
    pub case: Value,
}

/// All monotone non-decreasing sequences s[0..n) with s[h] <= h + slack.
fn monotone_starts(n: usize, slack: usize) -> Vec<Vec<usize>> {
    fn rec(n: usize, slack: usize, cur: &mut Vec<usize>, out: &mut Vec<Vec<usize>>) {
        if cur.len() == n {
            out.push(cur.clone());
            return;
        }
        let h = cur.len();
        let lo = cur.last().copied().unwrap_or(0);
        for s in lo..=h + slack {
            cur.push(s);
            rec(n, slack, cur, out);
            cur.pop();
        }
    }
    let mut out = vec![];
    rec(n, slack, &mut vec![], &mut out);
    out
}

/// All monotone non-decreasing mappings of length m with values in 0..=src_len.
fn monotone_mappings(m: usize, src_len: usize) -> Vec<Vec<usize>> {
    fn rec(m: usize, hi: usize, cur: &mut Vec<usize>, out: &mut Vec<Vec<usize>>) {
        if cur.len() == m {
            out.push(cur.clone());
            return;
        }
        let lo = cur.last().copied().unwrap_or(0);
        for s in lo..=hi {
            cur.push(s);
            rec(m, hi, cur, out);
            cur.pop();
        }
    }
    let mut out = vec![];
    rec(m, src_len, &mut vec![], &mut out);
    out
}

fn delta_expect(src: &[u32], starts: &[usize], inclusive: bool, op: &str) -> Vec<f64> {
    let n = src.len().min(starts.len());
    (0..n)
        .map(|h| {
            let start = starts[h];
            let cur = src[h] as f64;
            if inclusive {
                let ago = if start == 0 { 0.0 } else { src[start - 1] as f64 };
                let count = h + 1 - start;
                match op {
                    "avg" => if count == 0 { 0.0 } else { (cur - ago) / count as f64 },
                    _ => unreachable!(),
                }
            } else {
                let ago = src[start] as f64;
                match op {
                    "change" => cur - ago,
                    _ => if ago == 0.0 { 0.0 } else { (cur - ago) / ago },
                }
            }
        })
        .collect()
}

fn sub_expect(src: &[u64], starts: &[usize]) -> Vec<u64> {
    let n = src.len().min(starts.len());
    (0..n)
        .map(|h| {
            let start = starts[h];
            let ago = if start == 0 { 0 } else { src[start - 1] };
            src[h].checked_sub(ago).unwrap_or_default()
        })
        .collect()
}

fn agg_expect(src: &[u64], mapping: &[usize]) -> Vec<Option<u64>> {
    (0..mapping.len())
        .map(|i| {
            let cur = mapping[i];
            let next = mapping.get(i + 1).copied().unwrap_or(src.len());
            if next == 0 || cur >= next { None } else { Some(src[next - 1]) }
        })
        .collect()
}

struct Case<'a> {
    stats: &'a mut Counter,
    rng: &'a mut Rng,
    exhaustive: bool,
}

fn run_check<T, R>(c: &mut Case<'_>, kind: &str, r: &R, want: &[T], sentinel: T, case: Value) -> Result<(), LFail>
where
    T: Clone + PartialEq + Debug + Send + Sync + 'static,
    R: ReadableVec<usize, T>,
{
    c.stats.bump(&format!("vectors:{kind}"));
    let res = catch(|| check_lazy(r, want, sentinel, c.rng, c.exhaustive, c.stats));
    match res {
        Ok(Ok(())) => Ok(()),
        Ok(Err((sig, what))) => Err(LFail { sig: format!("{kind}|{sig}"), what: format!("{kind}: {what}"), case }),
        Err(p) => Err(LFail { sig: format!("{kind}|panic|{}", normalize_msg(&p)), what: format!("{kind}: a read API panicked on an in-domain request: {p}"), case }),
    }
}

/// One scenario: sources of the given lengths, every lazy vector kind built over them, checked,
/// then the sources grow and everything is checked again.
fn scenario<S: SrcFmt>(rng: &mut Rng, lens: [usize; 3], starts: Option<Vec<usize>>, mapping: Option<Vec<usize>>, exhaustive: bool, stats: &mut Counter) -> Result<(), LFail> {
    let tmp = TempDir::new("lazy");
    let db = Database::open(tmp.path()).expect("open");
    let mut a = Src::<S::V64, u64>::new(&db, "a");
    let mut b = Src::<S::V64, u64>::new(&db, "b");
    let mut c = Src::<S::V64, u64>::new(&db, "c");
    let mut cum = Src::<S::V64, u64>::new(&db, "cum");
    // 32-bit twins for the operators that go through f64
    let mut a32 = Src::<S::V32, u32>::new(&db, "a32");
    let mut cum32 = Src::<S::V32, u32>::new(&db, "cum32");
    let gen_vals = |rng: &mut Rng, n: usize| -> Vec<u64> { (0..n).map(|_| rng.below(1000) as u64).collect() };
    a.extend(gen_vals(rng, lens[0]));
    b.extend(gen_vals(rng, lens[1]));
    c.extend(gen_vals(rng, lens[2]));
    // cumulative series (non-decreasing) for Sub / Avg
    let mut run = 0u64;
    let cv: Vec<u64> = (0..lens[0]).map(|_| { run += rng.below(50) as u64; run }).collect();
    cum.extend(cv.clone());
    a32.extend(a.data.iter().map(|&x| x as u32).collect::<Vec<_>>());
    cum32.extend(cv.iter().map(|&x| x as u32).collect::<Vec<_>>());

    let starts: Arc<[usize]> = match starts {
        Some(s) => s.into(),
        None => {
            // random monotone starts, starts[h] <= h; length sometimes shorter / longer than the source
            let n = match rng.below(4) { 0 => lens[0].saturating_sub(rng.range(1, 3)), 1 => lens[0] + rng.range(1, 3), _ => lens[0] };
            let mut v = vec![];
            let mut prev = 0usize;
            for h in 0..n {
                let hi = h.min(lens[0].saturating_sub(1));
                let s = match rng.below(4) { 0 => prev, 1 => hi, _ => prev + rng.below(hi.saturating_sub(prev) + 1) };
                let s = s.max(prev).min(hi);
                v.push(s);
                prev = s;
            }
            v.into()
        }
    };
    let mapping: Arc<[usize]> = match mapping {
        Some(m) => m.into(),
        None => {
            let m = rng.below(lens[0] + 3);
            let mut v = vec![];
            let mut prev = 0usize;
            for _ in 0..m {
                let s = match rng.below(5) { 0 => prev, 1 => lens[0], _ => prev + rng.below(3) };
                let s = s.max(prev).min(lens[0]);
                v.push(s);
                prev = s;
            }
            v.into()
        }
    };

    let mut o1: (BytesVec<Other, u64>, Vec<u64>) = (BytesVec::forced_import(&db, "o1", Version::new(1)).expect("import o1"), vec![]);
    let mut o2: (BytesVec<Other, u64>, Vec<u64>) = (BytesVec::forced_import(&db, "o2", Version::new(1)).expect("import o2"), vec![]);
    for round in 0..2 {
        let mut cs = Case { stats, rng, exhaustive };
        let desc = json!({"source_format": S::F, "source_lens": [a.data.len(), b.data.len(), c.data.len()], "starts": &starts[..starts.len().min(12)], "mapping": &mapping[..mapping.len().min(12)], "round": round});
        // From1/2/3
        let l1: LazyVecFrom1<usize, u64, usize, u64> = LazyVecFrom1::init("l1", Version::new(1), a.boxed(), f1);
        let w: Vec<u64> = a.data.iter().enumerate().map(|(i, &x)| f1(i, x)).collect();
        run_check(&mut cs, "LazyVecFrom1", &l1, &w, 0xdead, desc.clone())?;
        let l2: LazyVecFrom2<usize, u64, usize, u64, usize, u64> = LazyVecFrom2::init("l2", Version::new(1), a.boxed(), b.boxed(), f2);
        let n2 = a.data.len().min(b.data.len());
        let w: Vec<u64> = (0..n2).map(|i| f2(i, a.data[i], b.data[i])).collect();
        run_check(&mut cs, "LazyVecFrom2", &l2, &w, 0xdead, desc.clone())?;
        let l3: LazyVecFrom3<usize, u64, usize, u64, usize, u64, usize, u64> = LazyVecFrom3::init("l3", Version::new(1), a.boxed(), b.boxed(), c.boxed(), f3);
        let n3 = n2.min(c.data.len());
        let w: Vec<u64> = (0..n3).map(|i| f3(i, a.data[i], b.data[i], c.data[i])).collect();
        run_check(&mut cs, "LazyVecFrom3", &l3, &w, 0xdead, desc.clone())?;
        // nested: a lazy vector over a lazy vector
        let l11: LazyVecFrom1<usize, u64, usize, u64> = LazyVecFrom1::init("l11", Version::new(1), Box::new(l1.clone()), f1);
        let w: Vec<u64> = a.data.iter().enumerate().map(|(i, &x)| f1(i, f1(i, x))).collect();
        run_check(&mut cs, "LazyVecFrom1(nested)", &l11, &w, 0xdead, desc.clone())?;

        // sources keyed by another index type do not govern the length: every pattern of
        // governing / non-governing sources (the non-governing ones are kept longer, so that the
        // formula is defined for every index below the governing length)
        {
            let long = a.data.len().max(b.data.len()).max(c.data.len()) + 3;
            while o1.1.len() < long {
                let x = cs.rng.below(1000) as u64;
                o1.0.push(x);
                o1.1.push(x);
                let y = cs.rng.below(1000) as u64;
                o2.0.push(y);
                o2.1.push(y);
            }
            AnyStoredVec::flush(&mut o1.0).expect("flush o1");
            AnyStoredVec::flush(&mut o2.0).expect("flush o2");
            let (ob1, ob2) = (|| o1.0.read_only_boxed_clone(), || o2.0.read_only_boxed_clone());
            let (la, lb, lc) = (a.data.len(), b.data.len(), c.data.len());
            // From2
            let l: LazyVecFrom2<usize, u64, usize, u64, Other, u64> = LazyVecFrom2::init("m2a", Version::new(1), a.boxed(), ob1(), f2);
            let w: Vec<u64> = (0..la).map(|i| f2(i, a.data[i], o1.1[i])).collect();
            run_check(&mut cs, "LazyVecFrom2(index types T,O)", &l, &w, 0xdead, desc.clone())?;
            let l: LazyVecFrom2<usize, u64, Other, u64, usize, u64> = LazyVecFrom2::init("m2b", Version::new(1), ob1(), b.boxed(), f2);
            let w: Vec<u64> = (0..lb).map(|i| f2(i, o1.1[i], b.data[i])).collect();
            run_check(&mut cs, "LazyVecFrom2(index types O,T)", &l, &w, 0xdead, desc.clone())?;
            // From3
            let l: LazyVecFrom3<usize, u64, usize, u64, usize, u64, Other, u64> = LazyVecFrom3::init("m3a", Version::new(1), a.boxed(), b.boxed(), ob1(), f3);
            let w: Vec<u64> = (0..la.min(lb)).map(|i| f3(i, a.data[i], b.data[i], o1.1[i])).collect();
            run_check(&mut cs, "LazyVecFrom3(index types T,T,O)", &l, &w, 0xdead, desc.clone())?;
            let l: LazyVecFrom3<usize, u64, usize, u64, Other, u64, usize, u64> = LazyVecFrom3::init("m3b", Version::new(1), a.boxed(), ob1(), c.boxed(), f3);
            let w: Vec<u64> = (0..la.min(lc)).map(|i| f3(i, a.data[i], o1.1[i], c.data[i])).collect();
            run_check(&mut cs, "LazyVecFrom3(index types T,O,T)", &l, &w, 0xdead, desc.clone())?;
            let l: LazyVecFrom3<usize, u64, Other, u64, usize, u64, usize, u64> = LazyVecFrom3::init("m3c", Version::new(1), ob1(), b.boxed(), c.boxed(), f3);
            let w: Vec<u64> = (0..lb.min(lc)).map(|i| f3(i, o1.1[i], b.data[i], c.data[i])).collect();
            run_check(&mut cs, "LazyVecFrom3(index types O,T,T)", &l, &w, 0xdead, desc.clone())?;
            let l: LazyVecFrom3<usize, u64, usize, u64, Other, u64, Other, u64> = LazyVecFrom3::init("m3d", Version::new(1), a.boxed(), ob1(), ob2(), f3);
            let w: Vec<u64> = (0..la).map(|i| f3(i, a.data[i], o1.1[i], o2.1[i])).collect();
            run_check(&mut cs, "LazyVecFrom3(index types T,O,O)", &l, &w, 0xdead, desc.clone())?;
            let l: LazyVecFrom3<usize, u64, Other, u64, usize, u64, Other, u64> = LazyVecFrom3::init("m3e", Version::new(1), ob1(), b.boxed(), ob2(), f3);
            let w: Vec<u64> = (0..lb).map(|i| f3(i, o1.1[i], b.data[i], o2.1[i])).collect();
            run_check(&mut cs, "LazyVecFrom3(index types O,T,O)", &l, &w, 0xdead, desc.clone())?;
            let l: LazyVecFrom3<usize, u64, Other, u64, Other, u64, usize, u64> = LazyVecFrom3::init("m3f", Version::new(1), ob1(), ob2(), c.boxed(), f3);
            let w: Vec<u64> = (0..lc).map(|i| f3(i, o1.1[i], o2.1[i], c.data[i])).collect();
            run_check(&mut cs, "LazyVecFrom3(index types O,O,T)", &l, &w, 0xdead, desc.clone())?;
        }

        // Delta operators; starts restricted to the source's current length
        let n = cum.data.len();
        let st: Vec<usize> = starts.iter().copied().collect();
        let valid_incl = st.iter().enumerate().all(|(h, &s)| h >= n || s <= h + 1) && st.windows(2).all(|w| w[0] <= w[1]);
        let valid_excl = st.iter().enumerate().all(|(h, &s)| h >= n || s <= h) && st.windows(2).all(|w| w[0] <= w[1]);
        let st_arc = starts.clone();
        if valid_incl {
            let s2 = st_arc.clone();
            let d: LazyDeltaVec<usize, u64, u64, DeltaSub> = LazyDeltaVec::new("dsub", Version::new(1), cum.boxed(), Version::new(1), move || s2.clone());
            run_check(&mut cs, "LazyDeltaVec<Sub>", &d, &sub_expect(&cum.data, &st), 0xdead, desc.clone())?;
            let s2 = st_arc.clone();
            let d: LazyDeltaVec<usize, u32, f64, DeltaAvg> = LazyDeltaVec::new("davg", Version::new(1), cum32.boxed(), Version::new(1), move || s2.clone());
            run_check(&mut cs, "LazyDeltaVec<Avg>", &d, &delta_expect(&cum32.data, &st, true, "avg"), -1.5, desc.clone())?;
        }
        if valid_excl {
            let s2 = st_arc.clone();
            let d: LazyDeltaVec<usize, u32, f64, DeltaChange> = LazyDeltaVec::new("dchg", Version::new(1), a32.boxed(), Version::new(1), move || s2.clone());
            let src_a = &a32.data[..];
            run_check(&mut cs, "LazyDeltaVec<Change>", &d, &delta_expect(src_a, &st, false, "change"), -1.5, desc.clone())?;
            let s2 = st_arc.clone();
            let d: LazyDeltaVec<usize, u32, f64, DeltaRate> = LazyDeltaVec::new("drate", Version::new(1), a32.boxed(), Version::new(1), move || s2.clone());
            run_check(&mut cs, "LazyDeltaVec<Rate>", &d, &delta_expect(src_a, &st, false, "rate"), -1.5, desc.clone())?;
        }
        // Sparse aggregation; mapping values within 0..=source length
        let mp: Vec<usize> = mapping.iter().copied().collect();
        if mp.iter().all(|&x| x <= a.data.len()) {
            let m2 = mapping.clone();
            let g: LazyAggVec<usize, Option<u64>, usize, usize, u64> = LazyAggVec::new("agg", Version::new(1), Version::new(1), a.boxed(), move || m2.clone());
            run_check(&mut cs, "LazyAggVec<Sparse>", &g, &agg_expect(&a.data, &mp), Some(0xdead), desc.clone())?;
        }
        // sources grow after the lazy vectors' first use (new instances share the same stored vectors)
        if round == 0 {
            let k = cs.rng.range(1, 4);
            let extra = gen_vals(cs.rng, k);
            a32.extend(extra.iter().map(|&x| x as u32).collect::<Vec<_>>());
            a.extend(extra);
            if cs.rng.chance(1, 2) {
                let extra = gen_vals(cs.rng, k);
                b.extend(extra);
            }
            let mut run2 = cum.data.last().copied().unwrap_or(0);
            let add: Vec<u64> = (0..k).map(|_| { run2 += cs.rng.below(50) as u64; run2 }).collect();
            cum32.extend(add.iter().map(|&x| x as u32).collect::<Vec<_>>());
            cum.extend(add);
            cs.stats.bump("sources_grown_after_construction");
        }
    }
    Ok(())
}

type LRunner = fn(&mut Rng, [usize; 3], Option<Vec<usize>>, Option<Vec<usize>>, bool, &mut Counter) -> Result<(), LFail>;

pub fn check_c15(ctx: &Ctx) -> i32 {
    let report = Report::new("C15");
    let runners: Vec<(&str, LRunner)> = vec![
        ("Bytes", scenario::<FBytes>),
        ("Pco", scenario::<FPco>),
        ("LZ4", scenario::<FLZ4>),
        ("ZeroCopy", scenario::<FZeroCopy>),
        ("Zstd", scenario::<FZstd>),
    ];
    let mut stats = Counter::default();
    let mut evaluations = 0u64;
    let mut distinct = std::collections::BTreeSet::new();
    let mut samples: Vec<Value> = vec![];
    let mut record = |r: Result<(), LFail>| {
        if let Err(f) = r {
            report.note_failure();
            report.violation(ctx, Violation { sig: format!("C15|{}", f.sig), what: f.what.clone(), detail: json!({"case": f.case, "mismatch": f.what}) });
        }
    };

    // ---- exhaustive part: every monotone window-start vector (starts[h] <= h+1) and every
    //      monotone first-index mapping for n <= nmax, sources of n (and n-1 / n+1) elements ----
    let nmax = if ctx.tier == Tier::Quick { 5 } else { 6 };
    let mut jobs: Vec<([usize; 3], Option<Vec<usize>>, Option<Vec<usize>>)> = vec![];
    for n in 0..=nmax {
        for s in monotone_starts(n, 1) {
            jobs.push(([n, n, n], Some(s), None));
        }
        for m in 0..=(n + 1).min(4) {
            for mp in monotone_mappings(m, n) {
                jobs.push(([n, n.saturating_sub(1), n + 1], None, Some(mp)));
            }
        }
    }
    let n_exh = jobs.len();
    let res = run_shards(ctx.threads, |shard| {
        let mut st = Counter::default();
        let mut out = vec![];
        for (k, (lens, s, m)) in jobs.iter().enumerate() {
            if k % ctx.threads != shard || report.failures_seen() >= 6 {
                continue;
            }
            let mut rng = Rng::derive(ctx.seed, &[15, k as u64]);
            let (_, runner) = runners[k % runners.len()];
            out.push((k, runner(&mut rng, *lens, s.clone(), m.clone(), true, &mut st)));
        }
        (st, out)
    });
    for (st, out) in res {
        stats.merge(&st);
        for (k, r) in out {
            evaluations += 1;
            distinct.insert(k as u64);
            record(r);
        }
    }
    // ---- random part: larger sources (page-crossing), unequal lengths, random mappings ---------
    let deadline = ctx.elapsed() + ctx.secs(12.0, 150.0);
    let res = run_shards(ctx.threads, |shard| {
        let mut st = Counter::default();
        let mut out = vec![];
        let mut h = 0u64;
        while ctx.elapsed() < deadline && report.failures_seen() < 6 {
            let mut rng = Rng::derive(ctx.seed, &[1515, shard as u64, h]);
            h += 1;
            let base = match rng.below(5) { 0 => rng.range(0, 8), 1 => rng.range(2040, 2056), 2 => rng.range(4090, 4102), 3 => rng.range(5000, 9000), _ => rng.range(1, 300) };
            let lens = [base, base.saturating_sub(rng.below(3)), base + rng.below(3)];
            let (name, runner) = runners[(h as usize + shard) % runners.len()];
            let r = runner(&mut rng, lens, None, None, false, &mut st);
            out.push((fnv(format!("{name}{lens:?}{h}{shard}").as_bytes()), lens, name, r));
        }
        (st, out)
    });
    for (st, out) in res {
        stats.merge(&st);
        for (id, lens, name, r) in out {
            evaluations += 1;
            if lens[0] >= 3 {
                distinct.insert(id);
            }
            if samples.len() < 3 {
                samples.push(json!({"source_format": name, "source_lens": lens, "lazy_vectors": ["From1", "From2", "From3", "From1(nested)", "Delta<Sub|Avg|Change|Rate>", "Agg<Sparse>"], "rounds": "checked, sources grown, checked again"}));
            }
            record(r);
        }
    }
    let apis: u64 = stats.0.iter().filter(|(k, _)| k.starts_with("api:")).map(|(_, v)| *v).sum();
    if apis == 0 {
        report.harness_error("no read API was exercised");
    }
    let coverage = json!({
        "evaluations": evaluations,
        "distinct_nontrivial": distinct.len(),
        "rule": "one evaluation = one scenario: stored u64 sources (one format per scenario, read through boxed read-only clones) over which LazyVecFrom1/2/3 (and a nested From1), LazyDeltaVec<Sub|Avg|Change|Rate> and LazyAggVec<Sparse> are built; every read API (collect*, all (from,to) ranges incl. reversed / out of range / usize::MAX, read_into (append), fold/try_fold with early exit, for_each*, collect_one for every index up to len+2 and usize::MAX, sorted reads with duplicates and out-of-range tails, cursor next/advance/fold/get) is compared with the defining formula evaluated on the harness's copy of the source contents; then the sources grow and everything is checked again. Exhaustive part: every monotone window-start vector with starts[h] <= h+1 and every monotone first-index mapping (values 0..=len, up to 4 entries) for n <= nmax, with all ranges and all sorted index lists of length <= 3; random part: lengths around 0, one page (2048), two pages and several thousand, unequal source lengths, mappings shorter/longer than the source. distinct_nontrivial = exhaustive cases (all distinct) + random scenarios with >= 3 source elements",
        "samples": samples,
        "exhaustive_cases": n_exh,
        "exhaustive_n_max": nmax,
        "vectors_checked": stats.0.iter().filter(|(k, _)| k.starts_with("vectors:")).map(|(k, v)| (k[8..].to_string(), json!(v))).collect::<serde_json::Map<_, _>>(),
        "read_api_calls_compared": apis,
        "sources_grown_after_construction": stats.get("sources_grown_after_construction"),
    });
    report.finish(ctx, "exploration", coverage, &["mapping / window-start values beyond the source length are outside the defined domain and are not judged", "the float operators are compared with the same IEEE expression evaluated by the harness (deterministic)"])
}
