//! anydb-verif: runtime monitors for the properties in /verif/properties.jsonl.
//! Usage: anydb-verif <PROPERTY> [--tier quick|thorough] [--replay <path>]

mod c_crash;
mod c_sched;
mod sched;
mod c_proc;
mod c_lazy;
mod c_eager;
mod c_fault;
mod c_import;
mod c_codec;
mod c_raw;
mod c_vec;
mod common;
mod crash;
mod obs;
mod probes;
mod rawmodel;
mod vecmodel;

use std::{path::PathBuf, time::Instant};

use common::{Ctx, Tier};

#[global_allocator]
static GLOBAL: c_codec::CountingAlloc = c_codec::CountingAlloc;

fn main() {
    let args: Vec<String> = std::env::args().skip(1).collect();
    let mut prop = String::new();
    let mut tier = match std::env::var("VERIF_TIER").as_deref() {
        Ok("thorough") => Tier::Thorough,
        _ => Tier::Quick,
    };
    let mut replay = None;
    let mut i = 0;
    while i < args.len() {
        match args[i].as_str() {
            "--tier" => {
                i += 1;
                tier = match args.get(i).map(|s| s.as_str()) {
                    Some("thorough") => Tier::Thorough,
                    _ => Tier::Quick,
                };
            }
            "--replay" => {
                i += 1;
                replay = args.get(i).map(PathBuf::from);
            }
            s if prop.is_empty() => prop = s.to_string(),
            _ => {}
        }
        i += 1;
    }
    let seed = std::env::var("VERIF_SEED")
        .ok()
        .and_then(|s| s.parse::<i64>().ok())
        .unwrap_or(1) as u64;
    let threads = std::env::var("VERIF_THREADS")
        .ok()
        .and_then(|s| s.parse().ok())
        .unwrap_or_else(|| {
            std::thread::available_parallelism()
                .map(|n| n.get())
                .unwrap_or(8)
                .min(16)
        });
    let budget = std::env::var("VERIF_BUDGET")
        .ok()
        .and_then(|s| s.parse().ok())
        .unwrap_or(1.0);
    let ctx = Ctx {
        prop: prop.clone(),
        tier,
        seed,
        start: Instant::now(),
        threads,
        replay,
        budget,
    };
    common::install_quiet_panic_hook();
    obs::install();
    if prop == "c17-shard" {
        let seed = args.get(1).and_then(|s| s.parse().ok()).unwrap_or(1);
        let shard = args.get(2).and_then(|s| s.parse().ok()).unwrap_or(0);
        let secs = args.get(3).and_then(|s| s.parse().ok()).unwrap_or(5.0);
        common::install_quiet_panic_hook();
        std::process::exit(c_codec::c17_shard(seed, shard, secs));
    }
    if prop == "miri-codecs" {
        let seed = args.get(1).and_then(|s| s.parse().ok()).unwrap_or(1);
        let shard = args.get(2).and_then(|s| s.parse().ok()).unwrap_or(0);
        let rounds = args.get(3).and_then(|s| s.parse().ok()).unwrap_or(1);
        common::install_quiet_panic_hook();
        std::process::exit(c_codec::miri_codecs(seed, shard, rounds));
    }
    if prop == "sched-confirm" {
        common::install_quiet_panic_hook();
        obs::install();
        c_sched::confirm_child(args.get(1).map(|s| s.as_str()).unwrap_or(""), args.get(2).map(|s| s.as_str()).unwrap_or("[]"));
    }
    if prop == "proc-child" {
        std::process::exit(c_proc::child_main());
    }
    let code = match prop.as_str() {
        "C09" | "C10" | "C11" | "C12" if ctx.replay.is_some() => c_sched::replay_sched(&ctx),
        "C09" => c_sched::check_c09(&ctx),
        "C10" => c_sched::check_c10(&ctx),
        "C11" => c_sched::check_c11(&ctx),
        "C17" => c_codec::check_c17(&ctx),
        "C18" => c_proc::check_c18_supervised(&ctx),
        "C03" | "C04" | "C07" | "C08" | "C16" | "C20" if ctx.replay.is_some() => c_vec::replay_vec(&ctx, c_vec::replay_cfg(&prop)),
        "C01" => c_raw::check_c01(&ctx),
        "C02" => c_raw::check_c02(&ctx),
        "C03" => c_vec::check_c03(&ctx),
        "C04" => c_vec::check_c04(&ctx),
        "C06" if ctx.replay.is_some() => c_eager::replay_eager(&ctx, 6, c_eager::ECfg { steps: 7, versions: false }),
        "C19" if ctx.replay.is_some() => c_eager::replay_eager(&ctx, 19, c_eager::ECfg { steps: 9, versions: true }),
        "C06" => c_eager::check_c06(&ctx),
        "C19" => c_eager::check_c19(&ctx),
        "C07" => c_vec::check_c07(&ctx),
        "C08" => c_vec::check_c08(&ctx),
        "C20" => c_vec::check_c20(&ctx),
        "C05" => c_crash::check_c05(&ctx),
        "C12" => c_crash::check_c12(&ctx),
        "C13" => c_vec::check_c13(&ctx),
        "C14" => c_import::check_c14(&ctx),
        "C15" => c_lazy::check_c15(&ctx),
        "C16" => c_vec::check_c16(&ctx),
        "dbg-tail" => {
            for ops in c_crash::directed_compact_tail_histories() {
                let o = c_raw::replay_ops(&ops, (0, 0), "dbg");
                println!("{:?} -> {:?}", ops.iter().map(|o| o.kind()).collect::<Vec<_>>().len(), o.failed_at.as_ref().map(|(i, m)| format!("{i}: {} {}", m.sig, m.what)));
            }
            0
        }
        "dbg-guided" => {
            // dbg-guided <key> <X> <m2:R|W> <Y> <m4> <wclass>: thread0=W, 1=A(holds X wants Y), 2=B(holds Y wants X)
            use rawdb::verif::Mode as LM;
            let key = args.get(1).cloned().unwrap_or_default();
            let md = |c: &str| if c == "W" { LM::Exclusive } else { LM::Shared };
            let (x, m2, y, m4, wc) = (args[2].clone(), md(&args[3]), args[4].clone(), md(&args[5]), args[6].clone());
            let all = [(0usize, wc, LM::Exclusive, None), (1usize, y.clone(), m2, Some(x.clone())), (2usize, x, m4, Some(y))];
            let mut plans = vec![];
            for order in [[0, 1, 2], [0, 2, 1], [1, 0, 2], [1, 2, 0], [2, 0, 1], [2, 1, 0]] {
                plans.push(order.iter().map(|&i| all[i].clone()).collect::<Vec<_>>());
            }
            let ex = c_sched::explore(&key, c_sched::Mode::Guided(plans), 1e9, &ctx);
            println!("runs {} outcomes {:?} deadlocks {}", ex.runs, ex.outcomes, ex.deadlocks.len());
            for (d, sch) in &ex.deadlocks {
                println!("DEADLOCK {} confirmed={:?}", d.signature, c_sched::confirm_deadlock(&key, sch));
            }
            0
        }
        "dbg-explore" => {
            let key = args.get(1).cloned().unwrap_or_default();
            let runs: usize = args.get(2).and_then(|s| s.parse().ok()).unwrap_or(500);
            let ex = if std::env::var("DFS").is_ok() {
                c_sched::explore(&key, c_sched::Mode::Dfs { max_preempt: std::env::var("DFS").unwrap().parse().unwrap_or(1), max_runs: runs }, 1e9, &ctx)
            } else {
                c_sched::explore(&key, c_sched::Mode::Random { runs, seed: ctx.seed }, 1e9, &ctx)
            };
            println!("exhaustive {} max_steps {}", ex.exhaustive, ex.max_steps);
            println!("runs {} distinct {} outcomes {:?} deadlocks {} failures {} stuck {:?}", ex.runs, ex.schedules.len(), ex.outcomes, ex.deadlocks.len(), ex.failures.len(), ex.stuck);
            for (d, sch) in &ex.deadlocks {
                println!("DEADLOCK {} confirmed={:?}", d.signature, c_sched::confirm_deadlock(&key, sch));
            }
            for f in ex.failures.iter().take(3) { println!("FAIL {} {} schedule={:?}", f.0, f.1, f.2); }
            0
        }
        "dbg-sched" => {
            let key = args.get(1).cloned().unwrap_or("c09|Pco|partial_reencode|range_tail".into());
            let t0 = Instant::now();
            let mut tb = 0.0;
            let mut tr = 0.0;
            for k in 0..50u64 {
                let a = Instant::now();
                let c_sched::Scn { tmp, jobs, check } = c_sched::build(&key).unwrap();
                tb += a.elapsed().as_secs_f64();
                let b = Instant::now();
                let r = sched::run(jobs, sched::Policy::Random { seed: k, stay: 60 }, sched::OnDeadlock::Abort, 4000);
                tr += b.elapsed().as_secs_f64();
                let res = check(&r.punches);
                if k < 3 || res.is_err() { println!("run {k}: steps {} end {:?} check {:?}", r.steps.len(), matches!(r.end, sched::RunEnd::Completed), res); }
                drop(tmp);
            }
            println!("50 runs: total {:.3}s build {:.3}s run {:.3}s", t0.elapsed().as_secs_f64(), tb, tr);
            0
        }
        "dbg-fpi" => {
            use vecdb::{AnyStoredVec, EagerVec, Exit, ImportableVec, LZ4Vec, ReadableVec, Version, WritableVec, ZstdVec, AnyVec};
            let tmp = common::TempDir::new("dbg");
            let db = vecdb::Database::open(tmp.path()).unwrap();
            let fpi: Vec<usize> = vec![1, 2, 3, 3, 4, 6, 7, 8, 9, 10, 11, 12, 14, 14, 14, 15, 16, 17, 18, 19, 19, 20, 21, 21, 22, 23, 24, 25, 27, 28, 28, 28, 29, 31, 31, 33, 33, 34, 36, 36, 37, 38, 40, 40, 41, 42, 43, 43, 43, 44, 45, 46, 46, 47, 49, 51, 51, 52, 52, 52, 53, 53, 54, 55, 55, 55, 56, 58];
            let mut src: ZstdVec<usize, usize> = ZstdVec::forced_import(&db, "fpi", Version::new(1)).unwrap();
            let mut out: EagerVec<LZ4Vec<usize, usize>> = EagerVec::forced_import(&db, "out", Version::new(1)).unwrap();
            let mut have = 0;
            for (k, (n, mf)) in [(26usize, 0usize), (65, 26), (68, 65)].into_iter().enumerate() {
                for &x in &fpi[have..n] { src.push(x); }
                have = n;
                src.flush().unwrap();
                let mut sc: EagerVec<LZ4Vec<usize, usize>> = EagerVec::forced_import(&db, &format!("scratch{}", k + 1), Version::new(1)).unwrap();
                sc.compute_first_per_index(0, &src, &Exit::new()).unwrap();
                println!("scratch{}: len {}", k + 1, sc.len());
                sc.remove().unwrap();
                out.compute_first_per_index(mf, &src, &Exit::new()).unwrap();
                println!("out: len {}", out.len());
            }
            0
        }
        "C13raw" => {
            let report = common::Report::new("C13");
            let c = c_raw::c13_raw_campaign(&ctx, &report, ctx.secs(10.0, 60.0));
            println!("{}", c.stats.to_json());
            report.finish(&ctx, "exploration", serde_json::json!({"evaluations": c.histories, "distinct_nontrivial": c.nontrivial.len(), "rule": "x", "samples": c.samples}), &[])
        }
        other => {
            eprintln!("unknown property '{other}'");
            2
        }
    };
    common::cleanup_tmp_root();
    std::process::exit(code);
}
