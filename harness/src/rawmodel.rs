//! Reference model, operation generator, executor and layout walker for rawdb.
//! Shared by C01, C02, C05, C12, C13 (and, per thread, by C10).

use std::{
    collections::{BTreeMap, BTreeSet, HashSet},
    path::{Path, PathBuf},
};

use rawdb::{Database, Error as RawError, PAGE_SIZE};
use serde_json::{Value, json};

use crate::common::{Counter, Rng, catch, normalize_msg};

// ---------------------------------------------------------------------------------------------
// Operations
// ---------------------------------------------------------------------------------------------

#[derive(Debug, Clone, PartialEq)]
pub enum ROp {
    Create(String),
    Write { name: String, n: usize },
    WriteAt { name: String, at: usize, n: usize },
    Truncate { name: String, from: usize },
    TruncateWrite { name: String, at: usize, n: usize },
    /// `batch_write_each` with `slots` offsets of `vlen` bytes each.
    BatchWrite { name: String, slots: Vec<usize>, vlen: usize },
    Rename { name: String, to: String },
    Remove(String),
    RemoveIfExists(String),
    Retain(Vec<String>),
    RegionFlush(String),
    Flush,
    Compact,
    /// flush, drop every handle, open again.
    Reopen,
    /// Remove while a second handle to the region is alive (must be refused, C13).
    RemoveWithHandle(String),
}

impl ROp {
    pub fn kind(&self) -> &'static str {
        match self {
            ROp::Create(_) => "create",
            ROp::Write { .. } => "write",
            ROp::WriteAt { .. } => "write_at",
            ROp::Truncate { .. } => "truncate",
            ROp::TruncateWrite { .. } => "truncate_write",
            ROp::BatchWrite { .. } => "batch_write",
            ROp::Rename { .. } => "rename",
            ROp::Remove(_) => "remove",
            ROp::RemoveIfExists(_) => "remove_if_exists",
            ROp::Retain(_) => "retain",
            ROp::RegionFlush(_) => "region_flush",
            ROp::Flush => "flush",
            ROp::Compact => "compact",
            ROp::Reopen => "reopen",
            ROp::RemoveWithHandle(_) => "remove_with_handle",
        }
    }

    pub fn to_json(&self) -> Value {
        match self {
            ROp::Create(n) => json!(["create", n]),
            ROp::Write { name, n } => json!(["write", name, n]),
            ROp::WriteAt { name, at, n } => json!(["write_at", name, at, n]),
            ROp::Truncate { name, from } => json!(["truncate", name, from]),
            ROp::TruncateWrite { name, at, n } => json!(["truncate_write", name, at, n]),
            ROp::BatchWrite { name, slots, vlen } => json!(["batch_write", name, slots, vlen]),
            ROp::Rename { name, to } => json!(["rename", name, to]),
            ROp::Remove(n) => json!(["remove", n]),
            ROp::RemoveIfExists(n) => json!(["remove_if_exists", n]),
            ROp::Retain(k) => json!(["retain", k]),
            ROp::RegionFlush(n) => json!(["region_flush", n]),
            ROp::Flush => json!(["flush"]),
            ROp::Compact => json!(["compact"]),
            ROp::Reopen => json!(["reopen"]),
            ROp::RemoveWithHandle(n) => json!(["remove_with_handle", n]),
        }
    }

    pub fn from_json(v: &Value) -> Option<ROp> {
        let a = v.as_array()?;
        let s = |i: usize| a.get(i).and_then(|x| x.as_str()).map(|x| x.to_string());
        let u = |i: usize| a.get(i).and_then(|x| x.as_u64()).map(|x| x as usize);
        Some(match a.first()?.as_str()? {
            "create" => ROp::Create(s(1)?),
            "write" => ROp::Write { name: s(1)?, n: u(2)? },
            "write_at" => ROp::WriteAt { name: s(1)?, at: u(2)?, n: u(3)? },
            "truncate" => ROp::Truncate { name: s(1)?, from: u(2)? },
            "truncate_write" => ROp::TruncateWrite { name: s(1)?, at: u(2)?, n: u(3)? },
            "batch_write" => ROp::BatchWrite {
                name: s(1)?,
                slots: a.get(2)?.as_array()?.iter().filter_map(|x| x.as_u64()).map(|x| x as usize).collect(),
                vlen: u(3)?,
            },
            "rename" => ROp::Rename { name: s(1)?, to: s(2)? },
            "remove" => ROp::Remove(s(1)?),
            "remove_if_exists" => ROp::RemoveIfExists(s(1)?),
            "retain" => ROp::Retain(a.get(1)?.as_array()?.iter().filter_map(|x| x.as_str()).map(|x| x.to_string()).collect()),
            "region_flush" => ROp::RegionFlush(s(1)?),
            "flush" => ROp::Flush,
            "compact" => ROp::Compact,
            "reopen" => ROp::Reopen,
            "remove_with_handle" => ROp::RemoveWithHandle(s(1)?),
            _ => return None,
        })
    }
}

/// Payload byte for write `serial` at payload index `i`: never zero, so that zeroed pages
/// (punched or never written) are recognisable.
#[inline]
pub fn payload_byte(serial: u64, i: usize) -> u8 {
    let x = serial
        .wrapping_mul(0x9E37_79B9_7F4A_7C15)
        .wrapping_add((i as u64).wrapping_mul(0xC2B2_AE3D_27D4_EB4F));
    1 + ((x >> 29) % 255) as u8
}

pub fn payload(serial: u64, n: usize) -> Vec<u8> {
    (0..n).map(|i| payload_byte(serial, i)).collect()
}

// ---------------------------------------------------------------------------------------------
// Model
// ---------------------------------------------------------------------------------------------

#[derive(Debug, Clone, Default, PartialEq)]
pub struct MRegion {
    pub bytes: Vec<u8>,
    /// Ever held data or was renamed: must survive flush + reopen.
    pub must_survive: bool,
}

#[derive(Debug, Clone, Default)]
pub struct RawModel {
    pub regions: BTreeMap<String, MRegion>,
    pub serial: u64,
}

/// Outcome class of an operation, compared between model and implementation.
#[derive(Debug, Clone, PartialEq, Eq)]
pub enum Outcome {
    Ok,
    WriteOutOfBounds,
    TruncateInvalid,
    AlreadyExists,
    NotFound,
    StillReferenced,
    OtherErr(String),
}

fn classify(e: &RawError) -> Outcome {
    match e {
        RawError::WriteOutOfBounds { .. } => Outcome::WriteOutOfBounds,
        RawError::TruncateInvalid { .. } => Outcome::TruncateInvalid,
        RawError::RegionAlreadyExists => Outcome::AlreadyExists,
        RawError::RegionNotFound => Outcome::NotFound,
        RawError::RegionStillReferenced { .. } => Outcome::StillReferenced,
        other => Outcome::OtherErr(normalize_msg(&other.to_string())),
    }
}

impl RawModel {
    /// Applies `op` to the model and returns the expected outcome.
    pub fn apply(&mut self, op: &ROp) -> Outcome {
        match op {
            ROp::Create(name) => {
                self.regions.entry(name.clone()).or_default();
                Outcome::Ok
            }
            ROp::Write { name, n } => {
                let Some(r) = self.regions.get_mut(name) else {
                    return Outcome::NotFound;
                };
                self.serial += 1;
                r.bytes.extend(payload(self.serial, *n));
                if *n > 0 {
                    r.must_survive = true;
                }
                Outcome::Ok
            }
            ROp::WriteAt { name, at, n } => {
                let Some(r) = self.regions.get_mut(name) else {
                    return Outcome::NotFound;
                };
                if *at > r.bytes.len() {
                    return Outcome::WriteOutOfBounds;
                }
                self.serial += 1;
                let data = payload(self.serial, *n);
                let end = at + n;
                if end > r.bytes.len() {
                    r.bytes.resize(end, 0);
                }
                r.bytes[*at..end].copy_from_slice(&data);
                if !r.bytes.is_empty() {
                    r.must_survive = true;
                }
                Outcome::Ok
            }
            ROp::Truncate { name, from } => {
                let Some(r) = self.regions.get_mut(name) else {
                    return Outcome::NotFound;
                };
                if *from > r.bytes.len() {
                    return Outcome::TruncateInvalid;
                }
                r.bytes.truncate(*from);
                Outcome::Ok
            }
            ROp::TruncateWrite { name, at, n } => {
                let Some(r) = self.regions.get_mut(name) else {
                    return Outcome::NotFound;
                };
                if *at > r.bytes.len() {
                    return Outcome::WriteOutOfBounds;
                }
                self.serial += 1;
                r.bytes.truncate(*at);
                r.bytes.extend(payload(self.serial, *n));
                if !r.bytes.is_empty() {
                    r.must_survive = true;
                }
                Outcome::Ok
            }
            ROp::BatchWrite { name, slots, vlen } => {
                let Some(r) = self.regions.get_mut(name) else {
                    return Outcome::NotFound;
                };
                self.serial += 1;
                for (k, &off) in slots.iter().enumerate() {
                    for j in 0..*vlen {
                        r.bytes[off + j] = payload_byte(self.serial, k * vlen + j);
                    }
                }
                Outcome::Ok
            }
            ROp::Rename { name, to } => {
                if !self.regions.contains_key(name) {
                    return Outcome::NotFound;
                }
                if self.regions.contains_key(to) {
                    return Outcome::AlreadyExists;
                }
                let mut r = self.regions.remove(name).unwrap();
                r.must_survive = true;
                self.regions.insert(to.clone(), r);
                Outcome::Ok
            }
            ROp::Remove(name) => {
                if self.regions.remove(name).is_some() {
                    Outcome::Ok
                } else {
                    Outcome::NotFound
                }
            }
            ROp::RemoveIfExists(name) => {
                self.regions.remove(name);
                Outcome::Ok
            }
            ROp::Retain(keep) => {
                let keep: HashSet<&String> = keep.iter().collect();
                self.regions.retain(|k, _| keep.contains(k));
                Outcome::Ok
            }
            ROp::RegionFlush(name) => {
                if self.regions.contains_key(name) {
                    Outcome::Ok
                } else {
                    Outcome::NotFound
                }
            }
            ROp::Flush | ROp::Compact | ROp::Reopen => Outcome::Ok,
            ROp::RemoveWithHandle(name) => {
                if self.regions.contains_key(name) {
                    Outcome::StillReferenced
                } else {
                    Outcome::NotFound
                }
            }
        }
    }
}

// ---------------------------------------------------------------------------------------------
// Generator
// ---------------------------------------------------------------------------------------------

#[derive(Debug, Clone)]
pub struct GenCfg {
    pub max_regions: usize,
    pub max_write: usize,
    pub allow_reopen: bool,
    pub allow_compact: bool,
    pub allow_refusals: bool,
    /// Bias towards remove / flush / grow clusters (C02).
    pub churn: bool,
    pub compact_heavy: bool,
    pub name_prefix: String,
}

impl Default for GenCfg {
    fn default() -> Self {
        Self {
            max_regions: 8,
            max_write: 300_000,
            allow_reopen: true,
            allow_compact: true,
            allow_refusals: false,
            churn: false,
            compact_heavy: false,
            name_prefix: "r".into(),
        }
    }
}

/// Sizes concentrated on the boundaries that select the allocator's paths.
pub fn gen_size(rng: &mut Rng, max: usize) -> usize {
    let s = match rng.below(20) {
        0 => 0,
        1 => 1,
        2 => PAGE_SIZE - 1,
        3 => PAGE_SIZE,
        4 => PAGE_SIZE + 1,
        5 => 2 * PAGE_SIZE,
        6 => 2 * PAGE_SIZE + 1,
        7..=10 => rng.range(1, 200),
        11..=13 => rng.range(200, 6000),
        14 | 15 => {
            // 2^k +- 1
            let k = rng.range(3, 18);
            let b = 1usize << k;
            match rng.below(3) {
                0 => b - 1,
                1 => b,
                _ => b + 1,
            }
        }
        16 | 17 => rng.range(6000, 70_000),
        _ => rng.range(1, max.max(2)),
    };
    s.min(max)
}

fn gen_offset(rng: &mut Rng, len: usize) -> usize {
    if len == 0 {
        return 0;
    }
    match rng.below(8) {
        0 => 0,
        1 => len,
        2 => len - 1,
        3 => (len / PAGE_SIZE) * PAGE_SIZE,
        4 => ((len / PAGE_SIZE) * PAGE_SIZE).saturating_sub(1),
        _ => rng.below(len + 1),
    }
}

pub fn gen_op(rng: &mut Rng, model: &RawModel, cfg: &GenCfg, name_counter: &mut usize) -> ROp {
    let names: Vec<&String> = model.regions.keys().collect();
    if names.is_empty() {
        *name_counter += 1;
        return ROp::Create(format!("{}{}", cfg.name_prefix, name_counter));
    }
    let pick = |rng: &mut Rng| -> String { (*rng.pick(&names)).clone() };
    // weights
    let w_create = if names.len() < cfg.max_regions { if cfg.churn { 14 } else { 8 } } else { 0 };
    let weights = [
        w_create,                                   // 0 create
        if cfg.churn { 22 } else { 30 },            // 1 write
        8,                                          // 2 write_at
        6,                                          // 3 truncate
        8,                                          // 4 truncate_write
        3,                                          // 5 batch_write
        4,                                          // 6 rename
        if cfg.churn { 14 } else { 6 },             // 7 remove
        1,                                          // 8 remove_if_exists
        1,                                          // 9 retain
        4,                                          // 10 region_flush
        if cfg.churn { 14 } else { 8 },             // 11 flush
        if !cfg.allow_compact { 0 } else if cfg.compact_heavy { 14 } else { 3 }, // 12 compact
        if cfg.allow_reopen { 3 } else { 0 },       // 13 reopen
        if cfg.allow_refusals { 6 } else { 0 },     // 14 refusal
        2,                                          // 15 create existing
    ];
    match rng.weighted(&weights) {
        0 => {
            *name_counter += 1;
            ROp::Create(format!("{}{}", cfg.name_prefix, name_counter))
        }
        1 => ROp::Write { name: pick(rng), n: gen_size(rng, cfg.max_write) },
        2 => {
            let name = pick(rng);
            let len = model.regions[&name].bytes.len();
            ROp::WriteAt { name, at: gen_offset(rng, len), n: gen_size(rng, cfg.max_write.min(20_000)) }
        }
        3 => {
            let name = pick(rng);
            let len = model.regions[&name].bytes.len();
            ROp::Truncate { name, from: gen_offset(rng, len) }
        }
        4 => {
            let name = pick(rng);
            let len = model.regions[&name].bytes.len();
            ROp::TruncateWrite { name, at: gen_offset(rng, len), n: gen_size(rng, cfg.max_write) }
        }
        5 => {
            let name = pick(rng);
            let len = model.regions[&name].bytes.len();
            let vlen = *rng.pick(&[1usize, 4, 8, 16]);
            if len < vlen {
                return ROp::Write { name, n: gen_size(rng, 5000) };
            }
            let k = rng.range(1, 6);
            let slots: Vec<usize> = (0..k).map(|_| rng.below(len - vlen + 1)).collect();
            ROp::BatchWrite { name, slots, vlen }
        }
        6 => {
            let name = pick(rng);
            *name_counter += 1;
            let to = match rng.below(6) {
                0 => format!("{}renamed with spaces {}", cfg.name_prefix, name_counter),
                1 => format!("{}/é∂/{}", cfg.name_prefix, name_counter),
                _ => format!("{}n{}", cfg.name_prefix, name_counter),
            };
            ROp::Rename { name, to }
        }
        7 => ROp::Remove(pick(rng)),
        8 => {
            if rng.chance(1, 2) {
                ROp::RemoveIfExists(pick(rng))
            } else {
                ROp::RemoveIfExists(format!("{}missing", cfg.name_prefix))
            }
        }
        9 => {
            let mut keep: Vec<String> = names
                .iter()
                .filter(|_| rng.chance(3, 4))
                .map(|s| (*s).clone())
                .collect();
            if rng.chance(1, 3) {
                keep.push(format!("{}not-there", cfg.name_prefix));
            }
            ROp::Retain(keep)
        }
        10 => ROp::RegionFlush(pick(rng)),
        11 => ROp::Flush,
        12 => ROp::Compact,
        13 => ROp::Reopen,
        14 => {
            let name = pick(rng);
            let len = model.regions[&name].bytes.len();
            match rng.below(6) {
                0 => ROp::WriteAt { name, at: len + 1 + rng.below(5000), n: gen_size(rng, 5000) },
                1 => ROp::Truncate { name, from: len + 1 + rng.below(5000) },
                2 => ROp::TruncateWrite { name, at: len + 1 + rng.below(5000), n: gen_size(rng, 5000) },
                3 => {
                    let to = pick(rng);
                    if to == name {
                        ROp::Remove(format!("{}unknown", cfg.name_prefix))
                    } else {
                        ROp::Rename { name, to }
                    }
                }
                4 => ROp::RemoveWithHandle(name),
                _ => ROp::Remove(format!("{}unknown", cfg.name_prefix)),
            }
        }
        _ => ROp::Create(pick(rng)),
    }
}

// ---------------------------------------------------------------------------------------------
// Layout walker (E-LAYOUT)
// ---------------------------------------------------------------------------------------------

#[derive(Debug, Clone, Default)]
pub struct LayoutSnap {
    pub layout_len: usize,
    pub file_len: usize,
    /// (start, size)
    pub regions: Vec<(usize, usize, usize, String)>, // start, reserved, len, id
    pub holes: Vec<(usize, usize)>,
    pub pending: Vec<(usize, usize)>,
    pub reserved: Vec<(usize, usize)>,
}

impl LayoutSnap {
    pub fn shape_hash(&self) -> u64 {
        let mut items: Vec<(usize, u8, usize)> = vec![];
        for r in &self.regions {
            items.push((r.0, 0, r.1 / PAGE_SIZE));
        }
        for h in &self.holes {
            items.push((h.0, 1, h.1 / PAGE_SIZE));
        }
        for h in &self.pending {
            items.push((h.0, 2, h.1 / PAGE_SIZE));
        }
        items.sort();
        let mut bytes = vec![];
        for (_, k, s) in items {
            bytes.push(k);
            bytes.extend((s as u32).to_le_bytes());
        }
        crate::common::fnv(&bytes)
    }

    pub fn largest_hole(&self) -> usize {
        self.holes.iter().map(|h| h.1).max().unwrap_or(0)
    }
}

/// Walks the layout under the library's own locks (layout -> regions -> meta) and checks the
/// partition invariant of C02. Only call at quiescent points.
pub fn check_layout(db: &Database) -> Result<LayoutSnap, String> {
    let layout = db.layout();
    let regions = db.regions();
    let file_len = db.file_len();
    let mut snap = LayoutSnap {
        layout_len: layout.len(),
        file_len,
        ..Default::default()
    };
    // (start, size, kind)
    let mut items: Vec<(usize, usize, &'static str)> = vec![];
    let mut seen_indexes = BTreeSet::new();
    for (&start, region) in layout.start_to_region() {
        let meta = region.meta();
        if meta.start() != start {
            return Err(format!("layout key {start} != region '{}' start {}", meta.id(), meta.start()));
        }
        if start % PAGE_SIZE != 0 {
            return Err(format!("region '{}' start {start} not page-aligned", meta.id()));
        }
        let reserved = meta.reserved();
        if reserved % PAGE_SIZE != 0 || reserved < PAGE_SIZE {
            return Err(format!("region '{}' reserved {reserved} not a positive page multiple", meta.id()));
        }
        if meta.len() > reserved {
            return Err(format!("region '{}' len {} > reserved {reserved}", meta.id(), meta.len()));
        }
        if start + reserved > file_len {
            return Err(format!(
                "region '{}' extent {start}+{reserved} exceeds file length {file_len}",
                meta.id()
            ));
        }
        if !seen_indexes.insert(region.index()) {
            return Err(format!("region index {} appears twice in layout", region.index()));
        }
        // slot table agreement
        match regions.get_from_index(region.index()) {
            Some(r) if r.ptr_eq(region) => {}
            _ => return Err(format!("layout region '{}' not in slot table at index {}", meta.id(), region.index())),
        }
        match regions.get_from_id(meta.id()) {
            Some(r) if r.ptr_eq(region) => {}
            _ => return Err(format!("layout region '{}' not reachable by name", meta.id())),
        }
        items.push((start, reserved, "region"));
        snap.regions.push((start, reserved, meta.len(), meta.id().to_string()));
    }
    let live = regions.index_to_region().iter().flatten().count();
    if live != snap.regions.len() {
        return Err(format!("slot table has {live} regions, layout has {}", snap.regions.len()));
    }
    if regions.len() != live {
        return Err(format!("name map has {} entries, slot table {live}", regions.len()));
    }
    for (&start, &size) in layout.start_to_hole() {
        if size == 0 || size % PAGE_SIZE != 0 || start % PAGE_SIZE != 0 {
            return Err(format!("hole {start}+{size} not page-granular"));
        }
        items.push((start, size, "hole"));
        snap.holes.push((start, size));
    }
    for (&start, &size) in layout.pending_holes() {
        if size == 0 || size % PAGE_SIZE != 0 || start % PAGE_SIZE != 0 {
            return Err(format!("pending hole {start}+{size} not page-granular"));
        }
        items.push((start, size, "pending"));
        snap.pending.push((start, size));
    }
    for (&start, &size) in layout.start_to_reserved() {
        items.push((start, size, "reservation"));
        snap.reserved.push((start, size));
    }
    // size index agrees with start index
    let mut from_index: Vec<(usize, usize)> = vec![];
    for (&size, starts) in layout.hole_to_starts() {
        if starts.is_empty() {
            return Err(format!("size index has empty bucket for {size}"));
        }
        for &s in starts.iter() {
            from_index.push((s, size));
        }
    }
    from_index.sort();
    if from_index != snap.holes {
        return Err(format!("hole size index {:?} disagrees with hole map {:?}", from_index, snap.holes));
    }
    items.sort();
    let mut pos = 0usize;
    let mut prev_kind = "";
    for &(start, size, kind) in &items {
        if start < pos {
            return Err(format!("{kind} at {start}+{size} overlaps previous extent ending at {pos}"));
        }
        if start > pos {
            return Err(format!("bytes {pos}..{start} below the allocated end belong to nothing"));
        }
        if kind == "hole" && prev_kind == "hole" {
            return Err(format!("adjacent free extents not merged at {start}"));
        }
        pos = start + size;
        prev_kind = kind;
    }
    if pos != snap.layout_len {
        return Err(format!("extents end at {pos} but Layout::len() = {}", snap.layout_len));
    }
    Ok(snap)
}

// ---------------------------------------------------------------------------------------------
// Executor
// ---------------------------------------------------------------------------------------------

#[derive(Debug, Clone)]
pub struct Mismatch {
    pub sig: String,
    pub what: String,
}

pub struct RawExec {
    pub dir: PathBuf,
    pub db: Option<Database>,
    pub model: RawModel,
    pub stats: Counter,
    pub check_layout_each_step: bool,
    pub last_layout: Option<LayoutSnap>,
    pub shapes: BTreeSet<u64>,
    /// min_len used on (re)open
    pub open_min_len: usize,
    /// Hook run after the db has been dropped and before it is reopened (C05 uses none).
    pub reopen_count: usize,
}

pub fn open_db(dir: &Path, min_len: usize) -> Result<Database, String> {
    match catch(|| {
        if min_len > 0 {
            Database::open_with_min_len(dir, min_len)
        } else {
            Database::open(dir)
        }
    }) {
        Ok(Ok(db)) => Ok(db),
        Ok(Err(e)) => Err(format!("open failed: {e}")),
        Err(p) => Err(format!("open panicked: {p}")),
    }
}

impl RawExec {
    pub fn new(dir: &Path, min_len: usize, min_regions: usize) -> Result<Self, String> {
        let db = open_db(dir, min_len)?;
        if min_regions > 0 {
            db.set_min_regions(min_regions).map_err(|e| format!("set_min_regions: {e}"))?;
        }
        Ok(Self {
            dir: dir.to_path_buf(),
            db: Some(db),
            model: RawModel::default(),
            stats: Counter::default(),
            check_layout_each_step: true,
            last_layout: None,
            shapes: BTreeSet::new(),
            open_min_len: min_len,
            reopen_count: 0,
        })
    }

    pub fn db(&self) -> &Database {
        self.db.as_ref().unwrap()
    }

    fn run_impl(&mut self, op: &ROp, serial: u64) -> Result<Outcome, String> {
        let db = self.db().clone();
        let r: Result<Result<(), RawError>, String> = catch(|| -> Result<(), RawError> {
            match op {
                ROp::Create(name) => {
                    let _ = db.create_region_if_needed(name)?;
                    Ok(())
                }
                ROp::Write { name, n } => {
                    let r = db.get_region(name).ok_or(RawError::RegionNotFound)?;
                    r.write(&payload(serial, *n))
                }
                ROp::WriteAt { name, at, n } => {
                    let r = db.get_region(name).ok_or(RawError::RegionNotFound)?;
                    r.write_at(&payload(serial, *n), *at)
                }
                ROp::Truncate { name, from } => {
                    let r = db.get_region(name).ok_or(RawError::RegionNotFound)?;
                    r.truncate(*from)
                }
                ROp::TruncateWrite { name, at, n } => {
                    let r = db.get_region(name).ok_or(RawError::RegionNotFound)?;
                    r.truncate_write(*at, &payload(serial, *n))
                }
                ROp::BatchWrite { name, slots, vlen } => {
                    let r = db.get_region(name).ok_or(RawError::RegionNotFound)?;
                    let vlen = *vlen;
                    r.batch_write_each(
                        slots.iter().enumerate().map(|(k, &off)| (off, k)),
                        vlen,
                        |k: &usize, dst: &mut [u8]| {
                            for (j, d) in dst.iter_mut().enumerate() {
                                *d = payload_byte(serial, k * vlen + j);
                            }
                        },
                    );
                    Ok(())
                }
                ROp::Rename { name, to } => {
                    let r = db.get_region(name).ok_or(RawError::RegionNotFound)?;
                    r.rename(to)
                }
                ROp::Remove(name) => db.remove_region(name),
                ROp::RemoveIfExists(name) => db.remove_region_if_exists(name),
                ROp::Retain(keep) => db.retain_regions(keep.iter().cloned().collect()),
                ROp::RegionFlush(name) => {
                    let r = db.get_region(name).ok_or(RawError::RegionNotFound)?;
                    r.flush().map(|_| ())
                }
                ROp::Flush => db.flush().map(|_| ()),
                ROp::Compact => db.compact(),
                ROp::Reopen => unreachable!(),
                ROp::RemoveWithHandle(name) => {
                    let keep = db.get_region(name).ok_or(RawError::RegionNotFound)?;
                    let r = db.remove_region(name);
                    drop(keep);
                    r
                }
            }
        });
        match r {
            Ok(Ok(())) => Ok(Outcome::Ok),
            Ok(Err(e)) => Ok(classify(&e)),
            Err(p) => Err(p),
        }
    }

    /// Executes `op` on both sides and compares. Returns the first mismatch.
    pub fn step(&mut self, op: &ROp) -> Result<(), Mismatch> {
        self.stats.bump(&format!("op:{}", op.kind()));

        if let ROp::Reopen = op {
            return self.reopen();
        }

        // pre-state for placement classification / reuse rule
        let pre_meta = match op {
            ROp::Write { name, .. } | ROp::WriteAt { name, .. } | ROp::TruncateWrite { name, .. } => self
                .db()
                .get_region(name)
                .map(|r| {
                    let m = r.meta();
                    (m.start(), m.reserved(), m.len())
                }),
            _ => None,
        };
        let pre_layout = self.last_layout.clone();
        let pre_exists = matches!(op, ROp::Create(n) if self.model.regions.contains_key(n));

        let expected = self.model.clone().apply(op);
        // serial the model will use for this op's payload
        let serial = self.model.serial + 1;
        let got = match self.run_impl(op, serial) {
            Ok(o) => o,
            Err(p) => {
                return Err(Mismatch {
                    sig: format!("panic|{}|{}", op.kind(), normalize_msg(&p)),
                    what: format!("{} panicked: {p}", op.kind()),
                });
            }
        };
        // A region whose metadata slot was never written (created, nothing else) makes
        // Region::flush report RegionMetadataUnwritten; the statement does not forbid that.
        let unwritten_flush = matches!(op, ROp::RegionFlush(n)
            if self.model.regions.get(n).is_some_and(|r| !r.must_survive))
            && matches!(&got, Outcome::OtherErr(m) if m.starts_with("Region_metadata_has_unwritten"));
        if unwritten_flush {
            self.stats.bump("region_flush:unwritten_metadata_error");
        }
        if got != expected && !unwritten_flush {
            return Err(Mismatch {
                sig: format!("outcome|{}|expected={:?}|got={:?}", op.kind(), expected, got),
                what: format!("{:?}: expected {:?}, got {:?}", op, expected, got),
            });
        }
        self.model.apply(op);
        if expected != Outcome::Ok {
            self.stats.bump(&format!("refused:{}:{:?}", op.kind(), expected));
        }

        self.compare(op.kind())?;

        if self.check_layout_each_step {
            let snap = check_layout(self.db()).map_err(|e| Mismatch {
                sig: format!("layout|{}", normalize_msg(&e)),
                what: format!("after {:?}: {e}", op),
            })?;
            self.note_layout(&snap);

            // placement classification + reuse rule
            if let (Some((s0, r0, _l0)), Some(pre)) = (pre_meta, pre_layout.as_ref()) {
                let name = match op {
                    ROp::Write { name, .. } | ROp::WriteAt { name, .. } | ROp::TruncateWrite { name, .. } => name,
                    _ => unreachable!(),
                };
                if let Some(r) = self.db().get_region(name) {
                    let (s1, r1) = {
                        let m = r.meta();
                        (m.start(), m.reserved())
                    };
                    let was_last = pre.regions.iter().map(|x| x.0).max() == Some(s0)
                        && pre.holes.iter().all(|h| h.0 < s0)
                        && pre.pending.iter().all(|h| h.0 < s0);
                    if s1 == s0 && r1 == r0 {
                        self.stats.bump("placement:fits");
                    } else if s1 == s0 {
                        if was_last {
                            self.stats.bump("placement:extend_last");
                        } else {
                            self.stats.bump("placement:expand_adjacent_hole");
                        }
                    } else {
                        let adequate = pre.holes.iter().any(|h| h.1 >= r1);
                        if s1 < pre.layout_len {
                            self.stats.bump("placement:relocate_to_hole");
                        } else {
                            self.stats.bump("placement:relocate_to_end");
                            if adequate {
                                return Err(Mismatch {
                                    sig: "reuse|relocation-appended-despite-adequate-hole".into(),
                                    what: format!(
                                        "{:?}: relocated to {s1} (reserved {r1}) at/after the allocated end {} although holes {:?} existed",
                                        op, pre.layout_len, pre.holes
                                    ),
                                });
                            }
                        }
                        if adequate {
                            self.stats.bump("reuse:judged_with_adequate_hole");
                        } else {
                            self.stats.bump("reuse:judged_without_adequate_hole");
                        }
                    }
                }
            }
            if let (ROp::Create(name), Some(pre)) = (op, pre_layout.as_ref())
                && !pre_exists
                && let Some(r) = self.db().get_region(name)
            {
                let s1 = r.meta().start();
                let adequate = pre.holes.iter().any(|h| h.1 >= PAGE_SIZE);
                if adequate {
                    self.stats.bump("reuse:create_with_adequate_hole");
                    if s1 >= pre.layout_len {
                        return Err(Mismatch {
                            sig: "reuse|creation-appended-despite-adequate-hole".into(),
                            what: format!(
                                "{:?}: placed at {s1} at/after the allocated end {} although holes {:?} existed",
                                op, pre.layout_len, pre.holes
                            ),
                        });
                    }
                } else {
                    self.stats.bump("reuse:create_without_adequate_hole");
                }
            }
        }
        Ok(())
    }

    fn note_layout(&mut self, snap: &LayoutSnap) {
        self.stats.bump("layout:states_walked");
        if let Some(prev) = &self.last_layout {
            // coalescing observed: pending holes promoted into fewer/larger holes
            if !prev.pending.is_empty() && snap.pending.is_empty() {
                self.stats.bump("layout:promotions");
                for p in &prev.pending {
                    let left = prev.holes.iter().any(|h| h.0 + h.1 == p.0);
                    let right = prev.holes.iter().any(|h| h.0 == p.0 + p.1);
                    match (left, right) {
                        (true, true) => self.stats.bump("layout:coalesce_both"),
                        (true, false) => self.stats.bump("layout:coalesce_left"),
                        (false, true) => self.stats.bump("layout:coalesce_right"),
                        _ => {}
                    }
                }
            }
        }
        let mh = self.stats.get("layout:max_holes").max(snap.holes.len() as u64);
        self.stats.0.insert("layout:max_holes".into(), mh);
        let mp = self.stats.get("layout:max_pending").max(snap.pending.len() as u64);
        self.stats.0.insert("layout:max_pending".into(), mp);
        self.shapes.insert(snap.shape_hash());
        self.last_layout = Some(snap.clone());
    }

    /// Compares every live region with the model through the public API.
    pub fn compare(&self, after: &str) -> Result<(), Mismatch> {
        let db = self.db();
        let r = catch(|| -> Result<(), Mismatch> {
            let ids: BTreeSet<String> = db.regions().id_to_index().keys().cloned().collect();
            let want: BTreeSet<String> = self.model.regions.keys().cloned().collect();
            if ids != want {
                let extra: Vec<_> = ids.difference(&want).collect();
                let missing: Vec<_> = want.difference(&ids).collect();
                return Err(Mismatch {
                    sig: format!(
                        "names|after={after}|extra={}|missing={}",
                        !extra.is_empty(),
                        !missing.is_empty()
                    ),
                    what: format!("after {after}: region names differ: extra {extra:?}, missing {missing:?}"),
                });
            }
            if db.regions().len() != want.len() {
                return Err(Mismatch {
                    sig: format!("count|after={after}"),
                    what: format!("regions().len() = {} but model has {}", db.regions().len(), want.len()),
                });
            }
            for (name, m) in &self.model.regions {
                let Some(region) = db.get_region(name) else {
                    return Err(Mismatch {
                        sig: format!("get_region-none|after={after}"),
                        what: format!("after {after}: get_region('{name}') = None"),
                    });
                };
                let (len, id) = {
                    let meta = region.meta();
                    (meta.len(), meta.id().to_string())
                };
                if id != *name {
                    return Err(Mismatch {
                        sig: format!("id|after={after}"),
                        what: format!("region '{name}' reports id '{id}'"),
                    });
                }
                if len != m.bytes.len() {
                    return Err(Mismatch {
                        sig: format!("len|after={after}"),
                        what: format!("after {after}: region '{name}' len {len}, model {}", m.bytes.len()),
                    });
                }
                let reader = region.create_reader();
                let got = reader.read_all();
                if got != &m.bytes[..] {
                    let at = got.iter().zip(&m.bytes).position(|(a, b)| a != b).unwrap_or(0);
                    let zero = got[at] == 0;
                    return Err(Mismatch {
                        sig: format!("bytes|after={after}|zeroed={zero}"),
                        what: format!(
                            "after {after}: region '{name}' differs at offset {at}: got {} want {} (len {len})",
                            got[at], m.bytes[at]
                        ),
                    });
                }
                drop(reader);
            }
            Ok(())
        });
        match r {
            Ok(x) => x,
            Err(p) => Err(Mismatch {
                sig: format!("panic|compare|{}", normalize_msg(&p)),
                what: format!("reading back after {after} panicked: {p}"),
            }),
        }
    }

    fn reopen(&mut self) -> Result<(), Mismatch> {
        let db = self.db.take().unwrap();
        if let Err(e) = db.flush() {
            return Err(Mismatch { sig: "reopen|flush-failed".into(), what: format!("flush before reopen: {e}") });
        }
        let pre = check_layout(&db).ok();
        drop(db);
        let db = open_db(&self.dir, 0).map_err(|e| Mismatch {
            sig: format!("reopen|{}", normalize_msg(&e)),
            what: e,
        })?;
        self.db = Some(db);
        self.reopen_count += 1;
        if let Some(p) = &pre
            && !p.holes.is_empty()
        {
            self.stats.bump("reopen:with_holes");
        }
        // never-written regions are don't-care: may be absent; if present must be empty
        let present: BTreeSet<String> = self.db().regions().id_to_index().keys().cloned().collect();
        let dontcare: Vec<String> = self
            .model
            .regions
            .iter()
            .filter(|(k, m)| !m.must_survive && !present.contains(*k))
            .map(|(k, _)| k.clone())
            .collect();
        for k in dontcare {
            self.model.regions.remove(&k);
            self.stats.bump("reopen:dontcare_dropped");
        }
        self.compare("reopen")?;
        let snap = check_layout(self.db()).map_err(|e| Mismatch {
            sig: format!("layout|reopen|{}", normalize_msg(&e)),
            what: format!("after reopen: {e}"),
        })?;
        self.last_layout = None;
        self.note_layout(&snap);
        Ok(())
    }

    pub fn close(&mut self) {
        self.db = None;
    }
}
