//! C06 / C19: EagerVec computations. Differential monitor: after every compute call the stored
//! result must equal the same method run from scratch on a fresh vector over the sources' current
//! contents; the same histories are replayed under different internal batch limits and must give
//! identical results; version changes must force a recomputation from index 0 and an unchanged
//! version must not re-evaluate or alter the prefix below min(starting index, stored length).

use std::{
    cell::{Cell, RefCell},
    collections::BTreeMap,
    rc::Rc,
    sync::Mutex,
};

use rawdb::verif::Event;
use serde_json::{Value, json};
use vecdb::{
    AnyStoredVec, AnyVec, BytesVec, Database, EagerVec, Exit, ImportableVec, LZ4Vec, ReadableVec,
    StoredVec, Version, WritableVec, ZeroCopyVec, ZstdVec,
};

use crate::{
    common::{Counter, Ctx, Report, Rng, TempDir, Tier, Violation, catch, fnv, normalize_msg, run_shards},
    obs,
};

pub trait Sv: StoredVec<I = usize, T = usize> + 'static {
    const F: &'static str;
}
impl Sv for BytesVec<usize, usize> {
    const F: &'static str = "Bytes";
}
impl Sv for ZeroCopyVec<usize, usize> {
    const F: &'static str = "ZeroCopy";
}
impl Sv for LZ4Vec<usize, usize> {
    const F: &'static str = "LZ4";
}
impl Sv for ZstdVec<usize, usize> {
    const F: &'static str = "Zstd";
}

// ---------------------------------------------------------------------------------------------
// Method catalogue
// ---------------------------------------------------------------------------------------------

#[derive(Debug, Clone, Copy, PartialEq)]
pub enum M {
    To,
    Range,
    FromIndex,
    Transform,
    Transform2,
    Transform3,
    Transform4,
    IndirectSeq,
    FirstPerIndex,
    Add,
    Subtract,
    Multiply,
    Divide,
    Percentage,
    PercentageDiff,
    Cumulative,
    CumulativeBinary,
    CumulativeTransformedBinary,
    CumulativeCount,
    RollingCount(usize),
    CumulativeCountFrom(usize),
    Change(usize),
    Lookback,
    Max(usize),
    Min(usize),
    Sum(usize),
    RollingSum,
    RollingMaxFromStarts,
    RollingMinFromStarts,
    AllTimeHigh,
    AllTimeLow,
    AllTimeLowExcl(bool),
    AllTimeHighFrom(usize),
    AllTimeLowFrom(usize),
    SumOfOthers,
    MinOfOthers,
    MaxOfOthers,
    SumFromIndexes,
    FilteredSumFromIndexes,
    CountFromIndexes,
    FilteredCountFromIndexes,
}

impl M {
    pub fn name(&self) -> &'static str {
        match self {
            M::To => "compute_to",
            M::Range => "compute_range",
            M::FromIndex => "compute_from_index",
            M::Transform => "compute_transform",
            M::Transform2 => "compute_transform2",
            M::Transform3 => "compute_transform3",
            M::Transform4 => "compute_transform4",
            M::IndirectSeq => "compute_indirect_sequential",
            M::FirstPerIndex => "compute_first_per_index",
            M::Add => "compute_add",
            M::Subtract => "compute_subtract",
            M::Multiply => "compute_multiply",
            M::Divide => "compute_divide",
            M::Percentage => "compute_percentage",
            M::PercentageDiff => "compute_percentage_difference",
            M::Cumulative => "compute_cumulative",
            M::CumulativeBinary => "compute_cumulative_binary",
            M::CumulativeTransformedBinary => "compute_cumulative_transformed_binary",
            M::CumulativeCount => "compute_cumulative_count",
            M::RollingCount(_) => "compute_rolling_count",
            M::CumulativeCountFrom(_) => "compute_cumulative_count_from",
            M::Change(_) => "compute_change",
            M::Lookback => "compute_lookback",
            M::Max(_) => "compute_max",
            M::Min(_) => "compute_min",
            M::Sum(_) => "compute_sum",
            M::RollingSum => "compute_rolling_sum",
            M::RollingMaxFromStarts => "compute_rolling_max_from_starts",
            M::RollingMinFromStarts => "compute_rolling_min_from_starts",
            M::AllTimeHigh => "compute_all_time_high",
            M::AllTimeLow => "compute_all_time_low",
            M::AllTimeLowExcl(_) => "compute_all_time_low_",
            M::AllTimeHighFrom(_) => "compute_all_time_high_from",
            M::AllTimeLowFrom(_) => "compute_all_time_low_from",
            M::SumOfOthers => "compute_sum_of_others",
            M::MinOfOthers => "compute_min_of_others",
            M::MaxOfOthers => "compute_max_of_others",
            M::SumFromIndexes => "compute_sum_from_indexes",
            M::FilteredSumFromIndexes => "compute_filtered_sum_from_indexes",
            M::CountFromIndexes => "compute_count_from_indexes",
            M::FilteredCountFromIndexes => "compute_filtered_count_from_indexes",
        }
    }

    /// Methods that hand every evaluated index to a user closure (C19 "not re-evaluated" clause).
    pub fn has_closure(&self) -> bool {
        matches!(self, M::To | M::Range | M::Transform | M::Transform2 | M::Transform3 | M::Transform4)
    }

    /// Output index == row index of the row sources, and every row is governed by row sources only.
    pub fn row_indexed(&self) -> bool {
        !matches!(self, M::FirstPerIndex)
    }

    pub fn describe(&self) -> String {
        format!("{self:?}")
    }
}

fn windows(rng: &mut Rng, rows: usize) -> usize {
    match rng.below(9) {
        0 => 0,
        1 => 1,
        2 => 2,
        3 => 3,
        4 => rows.saturating_sub(1),
        5 => rows,
        6 => rows + 1,
        7 => usize::MAX,
        _ => rng.range(1, 40),
    }
}

pub fn pick_method(rng: &mut Rng, rows: usize, k: usize) -> M {
    let all = catalogue(rng, rows);
    all[k % all.len()]
}

pub fn catalogue(rng: &mut Rng, rows: usize) -> Vec<M> {
    vec![
        M::To,
        M::Range,
        M::FromIndex,
        M::Transform,
        M::Transform2,
        M::Transform3,
        M::Transform4,
        M::IndirectSeq,
        M::FirstPerIndex,
        M::Add,
        M::Subtract,
        M::Multiply,
        M::Divide,
        M::Percentage,
        M::PercentageDiff,
        M::Cumulative,
        M::CumulativeBinary,
        M::CumulativeTransformedBinary,
        M::CumulativeCount,
        M::RollingCount(windows(rng, rows)),
        M::CumulativeCountFrom(rng.below(rows + 3)),
        M::Change(match windows(rng, rows) {
            usize::MAX => 5,
            w => w,
        }),
        M::Lookback,
        M::Max(windows(rng, rows)),
        M::Min(windows(rng, rows)),
        M::Sum(windows(rng, rows)),
        M::RollingSum,
        M::RollingMaxFromStarts,
        M::RollingMinFromStarts,
        M::AllTimeHigh,
        M::AllTimeLow,
        M::AllTimeLowExcl(rng.chance(1, 2)),
        M::AllTimeHighFrom(rng.below(rows + 3)),
        M::AllTimeLowFrom(rng.below(rows + 3)),
        M::SumOfOthers,
        M::MinOfOthers,
        M::MaxOfOthers,
        M::SumFromIndexes,
        M::FilteredSumFromIndexes,
        M::CountFromIndexes,
        M::FilteredCountFromIndexes,
    ]
}

// ---------------------------------------------------------------------------------------------
// Sources
// ---------------------------------------------------------------------------------------------

/// Plain contents of all sources (the harness's own copy).
#[derive(Debug, Clone, Default)]
pub struct Data {
    pub a: Vec<usize>,      // free values (also used as the monotone series for Change: see `mono`)
    pub b: Vec<usize>,      // non-zero, b[i] <= a2[i]
    pub a2: Vec<usize>,     // a2[i] >= b[i] (Subtract / PercentageDiff keep inside unsigned range)
    pub c: Vec<usize>,
    pub d: Vec<usize>,
    pub mono: Vec<usize>,   // non-decreasing
    pub starts: Vec<usize>, // non-decreasing, starts[i] <= i
    pub keys: Vec<usize>,   // non-decreasing keys into `inner`
    pub first: Vec<usize>,  // prefix sums of counts
    pub counts: Vec<usize>,
    pub inner: Vec<usize>,  // indexed by first/counts (contiguous groups)
    pub kin: Vec<usize>,    // indexed by keys
    pub fpi: Vec<usize>,    // non-decreasing: position -> output index (compute_first_per_index)
}

impl Data {
    pub fn rows(&self) -> usize {
        self.a.len()
    }

    /// Appends `k` rows drawn from `rng`; `salt` makes regrown values differ from earlier ones.
    pub fn grow(&mut self, rng: &mut Rng, k: usize, short_b: bool) {
        for _ in 0..k {
            let i = self.a.len();
            let bv = 1 + rng.below(50);
            self.a.push(rng.below(1000));
            self.a2.push(bv + rng.below(900));
            self.c.push(rng.below(1000));
            self.d.push(rng.below(7));
            let last = self.mono.last().copied().unwrap_or(0);
            self.mono.push(last + rng.below(5));
            let prev = self.starts.last().copied().unwrap_or(0);
            self.starts.push(match rng.below(4) {
                0 => prev,
                1 => i,
                _ => prev + rng.below(i - prev + 1),
            });
            self.b.push(bv);
            let cnt = match rng.below(5) {
                0 | 1 => 0,
                _ => rng.below(4),
            };
            self.first.push(self.inner.len());
            self.counts.push(cnt);
            for _ in 0..cnt {
                self.inner.push(rng.below(500));
            }
            // keys: non-decreasing, repeat sometimes, < kin.len()
            for _ in 0..rng.range(1, 2) {
                self.kin.push(rng.below(500));
            }
            let pk = self.keys.last().copied().unwrap_or(0);
            let nk = if rng.chance(1, 3) { pk } else { pk + rng.below(3) };
            self.keys.push(nk.min(self.kin.len() - 1).max(pk));
        }
        // first-per-index mapping: a run of positions per output index, with gaps
        let target = self.a.len() + 3;
        while self.fpi.len() < target {
            let last = self.fpi.last().copied().unwrap_or(0);
            let step = match rng.below(6) {
                0 => 2,
                1 | 2 => 0,
                _ => 1,
            };
            self.fpi.push(if self.fpi.is_empty() { rng.below(2) } else { last + step });
        }
        if short_b && self.b.len() > 1 && rng.chance(1, 2) {
            // unequal source lengths: b one or two rows shorter
            let cut = 1 + rng.below(2.min(self.b.len() - 1));
            self.b.truncate(self.b.len() - cut);
        }
    }

    pub fn truncate_rows(&mut self, t: usize) {
        if t >= self.rows() {
            return;
        }
        let inner_keep = self.first[t];
        let kin_keep = self.keys[..t].iter().copied().max().map(|k| k + 1).unwrap_or(0);
        for v in [&mut self.a, &mut self.a2, &mut self.b, &mut self.c, &mut self.d, &mut self.mono, &mut self.starts, &mut self.keys, &mut self.first, &mut self.counts] {
            v.truncate(t);
        }
        self.inner.truncate(inner_keep);
        self.kin.truncate(kin_keep);
        self.fpi.truncate((t + 3).min(self.fpi.len()).min(t.max(1)));
    }
}

pub struct Sources<S: Sv> {
    pub a: S,
    pub a2: S,
    pub b: S,
    pub c: S,
    pub d: S,
    pub mono: S,
    pub starts: S,
    pub keys: S,
    pub first: S,
    pub counts: S,
    pub inner: S,
    pub kin: S,
    pub fpi: S,
}

fn sync_one<S: Sv>(v: &mut S, want: &[usize]) -> vecdb::Result<()> {
    // truncate to the common prefix, push the rest
    let have: Vec<usize> = ReadableVec::collect(v);
    let common = have.iter().zip(want).take_while(|(x, y)| x == y).count();
    if common < have.len() {
        v.truncate_if_needed_at(common)?;
    }
    for &x in &want[common..] {
        v.push(x);
    }
    AnyStoredVec::flush(v)?;
    let now: Vec<usize> = ReadableVec::collect(v);
    if now != want {
        if std::env::var("VERIF_DEBUG").is_ok() {
            eprintln!("source readback mismatch: have {:?}\n want {:?}", now, want);
        }
        return Err(vecdb::Error::InvalidArgument("source vector does not read back what was written"));
    }
    Ok(())
}

impl<S: Sv> Sources<S> {
    pub fn import(db: &Database, versions: &[u32; 13]) -> vecdb::Result<Self> {
        let f = |n: &str, k: usize| S::forced_import(db, n, Version::new(versions[k]));
        Ok(Self {
            a: f("a", 0)?,
            a2: f("a2", 1)?,
            b: f("b", 2)?,
            c: f("c", 3)?,
            d: f("d", 4)?,
            mono: f("mono", 5)?,
            starts: f("starts", 6)?,
            keys: f("keys", 7)?,
            first: f("first", 8)?,
            counts: f("counts", 9)?,
            inner: f("inner", 10)?,
            fpi: f("fpi", 11)?,
            kin: f("kin", 12)?,
        })
    }

    pub fn sync(&mut self, d: &Data) -> vecdb::Result<()> {
        sync_one(&mut self.a, &d.a)?;
        sync_one(&mut self.a2, &d.a2)?;
        sync_one(&mut self.b, &d.b)?;
        sync_one(&mut self.c, &d.c)?;
        sync_one(&mut self.d, &d.d)?;
        sync_one(&mut self.mono, &d.mono)?;
        sync_one(&mut self.starts, &d.starts)?;
        sync_one(&mut self.keys, &d.keys)?;
        sync_one(&mut self.first, &d.first)?;
        sync_one(&mut self.counts, &d.counts)?;
        sync_one(&mut self.inner, &d.inner)?;
        sync_one(&mut self.kin, &d.kin)?;
        sync_one(&mut self.fpi, &d.fpi)
    }
}

thread_local! {
    /// Row at which the user closure reports a wrong index (None = never).
    static FAIL_AT: std::cell::Cell<Option<usize>> = const { std::cell::Cell::new(None) };
}

/// Calls method `m` on `out`. `log` receives every index handed to a user closure; `tag` is
/// mixed into closure results so that results computed under another version are recognisable.
pub fn call<V: Sv, S: Sv>(
    m: M,
    out: &mut EagerVec<V>,
    max_from: usize,
    s: &Sources<S>,
    exit: &Exit,
    log: &RefCell<Vec<usize>>,
    tag: usize,
) -> vecdb::Result<()> {
    let note = |i: usize| log.borrow_mut().push(i);
    // a closure that reports another index than the one it was asked for makes the computation
    // fail at that row (FAIL_AT is set only for the "computation fails part-way" step)
    let at = |i: usize| if FAIL_AT.with(|c| c.get()) == Some(i) { i + 1 } else { i };
    match m {
        M::To => out.compute_to(max_from, s.a.len(), s.a.version(), |i| { note(i); (at(i), i * 16 + tag) }, exit),
        M::Range => out.compute_range(max_from, &s.a, |i| { note(i); (at(i), i * 32 + tag) }, exit),
        M::FromIndex => out.compute_from_index(max_from, &s.a, exit),
        M::Transform => out.compute_transform(max_from, &s.a, |(i, x, _)| { note(i); (at(i), x * 16 + tag) }, exit),
        M::Transform2 => out.compute_transform2(max_from, &s.a, &s.b, |(i, x, y, _)| { note(i); (at(i), (x * 64 + y) * 16 + tag) }, exit),
        M::Transform3 => out.compute_transform3(max_from, &s.a, &s.b, &s.c, |(i, x, y, z, _)| { note(i); (at(i), ((x * 64 + y) * 1024 + z) * 16 + tag) }, exit),
        M::Transform4 => out.compute_transform4(max_from, &s.a, &s.b, &s.c, &s.d, |(i, x, y, z, w, _)| { note(i); (at(i), (((x * 64 + y) * 1024 + z) * 8 + w) * 16 + tag) }, exit),
        M::IndirectSeq => out.compute_indirect_sequential(max_from, &s.keys, &s.kin, exit),
        M::FirstPerIndex => out.compute_first_per_index(max_from, &s.fpi, exit),
        M::Add => out.compute_add(max_from, &s.a, &s.c, exit),
        M::Subtract => out.compute_subtract(max_from, &s.a2, &s.b, exit),
        M::Multiply => out.compute_multiply(max_from, &s.a, &s.c, exit),
        M::Divide => out.compute_divide(max_from, &s.a, &s.b, exit),
        M::Percentage => out.compute_percentage(max_from, &s.a, &s.b, exit),
        M::PercentageDiff => out.compute_percentage_difference(max_from, &s.a2, &s.b, exit),
        M::Cumulative => out.compute_cumulative(max_from, &s.a, exit),
        M::CumulativeBinary => out.compute_cumulative_binary(max_from, &s.a, &s.b, exit),
        M::CumulativeTransformedBinary => out.compute_cumulative_transformed_binary(max_from, &s.a, &s.c, |x: usize, y: usize| x * 3 + y, exit),
        M::CumulativeCount => out.compute_cumulative_count(max_from, &s.a, |x: &usize| x % 3 == 0, exit),
        M::RollingCount(w) => out.compute_rolling_count(max_from, &s.a, w, |x: &usize| x % 2 == 0, exit),
        M::CumulativeCountFrom(f) => out.compute_cumulative_count_from(max_from, &s.a, f, |x: &usize| x % 3 != 1, exit),
        M::Change(l) => out.compute_change(max_from, &s.mono, l, exit),
        M::Lookback => out.compute_lookback(max_from, &s.starts, &s.a, exit),
        M::Max(w) => out.compute_max(max_from, &s.a, w, exit),
        M::Min(w) => out.compute_min(max_from, &s.a, w, exit),
        M::Sum(w) => out.compute_sum(max_from, &s.a, w, exit),
        M::RollingSum => out.compute_rolling_sum(max_from, &s.starts, &s.a, exit),
        M::RollingMaxFromStarts => out.compute_rolling_max_from_starts(max_from, &s.starts, &s.a, exit),
        M::RollingMinFromStarts => out.compute_rolling_min_from_starts(max_from, &s.starts, &s.a, exit),
        M::AllTimeHigh => out.compute_all_time_high(max_from, &s.a, exit),
        M::AllTimeLow => out.compute_all_time_low(max_from, &s.a, exit),
        M::AllTimeLowExcl(x) => out.compute_all_time_low_(max_from, &s.d, exit, x),
        M::AllTimeHighFrom(f) => out.compute_all_time_high_from(max_from, &s.a, f, exit),
        M::AllTimeLowFrom(f) => out.compute_all_time_low_from(max_from, &s.a, f, exit),
        M::SumOfOthers => out.compute_sum_of_others(max_from, &[&s.a, &s.b, &s.c], exit),
        M::MinOfOthers => out.compute_min_of_others(max_from, &[&s.a, &s.b, &s.c], exit),
        M::MaxOfOthers => out.compute_max_of_others(max_from, &[&s.a, &s.b, &s.c], exit),
        M::SumFromIndexes => out.compute_sum_from_indexes(max_from, &s.first, &s.counts, &s.inner, exit),
        M::FilteredSumFromIndexes => out.compute_filtered_sum_from_indexes(max_from, &s.first, &s.counts, &s.inner, |v: &usize| v % 2 == 1, exit),
        M::CountFromIndexes => out.compute_count_from_indexes(max_from, &s.first, &s.inner, exit),
        M::FilteredCountFromIndexes => out.compute_filtered_count_from_indexes(max_from, &s.first, &s.inner, |i: usize| i % 3 != 0, exit),
    }
}

// ---------------------------------------------------------------------------------------------
// One history
// ---------------------------------------------------------------------------------------------

#[derive(Debug, Clone)]
pub struct EFail {
    pub sig: String,
    pub what: String,
}

pub struct EOutcome {
    pub label: String,
    pub method: M,
    pub steps: Vec<Value>,
    pub hashes: Vec<u64>,
    pub failed: Option<EFail>,
    pub stats: Counter,
}

#[derive(Clone, Copy)]
pub struct ECfg {
    pub steps: usize,
    pub versions: bool,
}

fn hash_vec(v: &[usize]) -> u64 {
    let mut h = 0xcbf2_9ce4_8422_2325u64 ^ v.len() as u64;
    for &x in v {
        h ^= x as u64;
        h = h.wrapping_mul(0x0000_0100_0000_01B3);
    }
    h
}

fn scratch<V: Sv, S: Sv>(db: &Database, m: M, s: &Sources<S>, own_version: u32, tag: usize, n: usize) -> Result<Vec<usize>, String> {
    scratch_v::<V, S>(db, m, s, own_version, tag, n).map(|x| x.0)
}

/// From-scratch run; also returns the combined version it recorded.
fn scratch_v<V: Sv, S: Sv>(db: &Database, m: M, s: &Sources<S>, own_version: u32, tag: usize, n: usize) -> Result<(Vec<usize>, u32), String> {
    let name = format!("scratch{n}");
    let r = catch(|| -> vecdb::Result<(Vec<usize>, u32)> {
        let mut v: EagerVec<V> = EagerVec::forced_import(db, &name, Version::new(own_version))?;
        let exit = Exit::new();
        let log = RefCell::new(vec![]);
        let res = call(m, &mut v, 0, s, &exit, &log, tag);
        let out = ReadableVec::collect(&v);
        if std::env::var("VERIF_DEBUG").is_ok() {
            eprintln!("scratch {name}: fpi.len={} a.len={} out.len={} v.len={} stored={} range_read={} res={:?}", s.fpi.len(), s.a.len(), out.len(), v.len(), AnyStoredVec::stored_len(&v), s.fpi.collect_range_at(0, s.fpi.len()).len(), res.as_ref().err().map(|e| e.to_string()));
        }
        let cv = u32::from(AnyStoredVec::header(&v).computed_version());
        let _ = v.remove();
        res?;
        Ok((out, cv))
    });
    match r {
        Ok(Ok(v)) => Ok(v),
        Ok(Err(e)) => Err(format!("error:{}", normalize_msg(&e.to_string()))),
        Err(p) => Err(format!("panic:{}", normalize_msg(&p))),
    }
}

pub fn run_eager_history<V: Sv, S: Sv>(hseed: u64, m_index: usize, cfg: ECfg) -> EOutcome {
    let mut rng = Rng::new(hseed);
    let tmp = TempDir::new("eager");
    let label = format!("Eager<{}> over {} sources", V::F, S::F);
    let mut data = Data::default();
    let n0 = rng.range(0, 40);
    data.grow(&mut rng, n0, true);
    let m = pick_method(&mut rng, data.rows().max(4), m_index);
    let mut o = EOutcome { label, method: m, steps: vec![], hashes: vec![], failed: None, stats: Counter::default() };
    let fail = |o: &mut EOutcome, sig: String, what: String| {
        o.failed = Some(EFail { sig, what });
    };
    let db = match Database::open(tmp.path()) {
        Ok(d) => d,
        Err(e) => {
            fail(&mut o, "setup".into(), format!("open: {e}"));
            return o;
        }
    };
    let mut versions = [1u32; 13];
    let mut own_version = 1u32;
    let mut srcs: Option<Sources<S>> = match Sources::import(&db, &versions).and_then(|mut s| s.sync(&data).map(|_| s)) {
        Ok(s) => Some(s),
        Err(e) => {
            fail(&mut o, "setup".into(), format!("sources: {e}"));
            return o;
        }
    };
    let mut out: EagerVec<V> = match EagerVec::forced_import(&db, "out", Version::new(own_version)) {
        Ok(v) => v,
        Err(e) => {
            fail(&mut o, "setup".into(), format!("out: {e}"));
            return o;
        }
    };
    let exit = Exit::new();
    let batches = Rc::new(Cell::new(0u64));
    let b2 = batches.clone();
    let sink: obs::Sink = Rc::new(move |e: &Event<'_>| {
        if let Event::Point { name: "eager:batch_boundary" } = e {
            b2.set(b2.get() + 1);
            // logical non-termination guard: the sources have a few hundred rows
            if b2.get() > 100_000 {
                panic!("more than 100000 internal write batches in one compute call (no progress between batches)");
            }
        }
    });

    // expected contents of `out` (== last from-scratch result) and first changed row since then
    let mut expected: Option<Vec<usize>> = None;
    let mut first_changed_row: usize = 0; // c: rows >= c of some source changed since the last call
    let mut first_changed_pos: usize = 0; // same for the fpi mapping (positions)
    let mut version_changed = true; // nothing computed yet
    let mut scratch_n = 0usize;
    let mut tag = (versions.iter().sum::<u32>() as usize + own_version as usize) % 16;

    for step in 0..cfg.steps {
        // ---- mutate the sources / the output vector -------------------------------------------
        let kind = if step == 0 {
            "initial"
        } else {
            let w = [30, 22, 8, 10, if cfg.versions { 14 } else { 0 }, if cfg.versions { 6 } else { 0 }, if cfg.versions { 6 } else { 0 }];
            ["append", "truncate_regrow", "redundant", "reimport_out", "bump_source_version", "bump_own_version", "stamp_only"][rng.weighted(&w)]
        };
        o.stats.bump(&format!("step:{kind}"));
        let rows_before = data.rows();
        let fpi_before = data.fpi.clone();
        let r: vecdb::Result<()> = (|| {
            match kind {
                "append" => {
                    let k = match rng.below(4) {
                        0 => 1,
                        1 => rng.range(1, 5),
                        _ => rng.range(1, 60),
                    };
                    // a shorter `b` is re-extended first so that rows stay aligned
                    let pad = data.a.len() - data.b.len();
                    for _ in 0..pad {
                        let i = data.b.len();
                        data.b.push(1 + (data.a2[i] % 50).min(data.a2[i].saturating_sub(1)).min(49));
                        let bi = data.b[i];
                        if data.a2[i] < bi {
                            data.a2[i] = bi;
                        }
                    }
                    first_changed_row = first_changed_row.min(rows_before - pad);
                    data.grow(&mut rng, k, true);
                    first_changed_pos = first_changed_pos.min(fpi_before.len());
                    srcs.as_mut().unwrap().sync(&data)
                }
                "truncate_regrow" => {
                    let t = if rows_before == 0 { 0 } else { rng.below(rows_before + 1) };
                    data.truncate_rows(t);
                    let pad = data.a.len() - data.b.len();
                    let _ = pad;
                    data.b.truncate(data.a.len());
                    let k = rng.range(0, 50);
                    data.grow(&mut rng, k, true);
                    first_changed_row = first_changed_row.min(t.min(data.b.len()));
                    let common = fpi_before.iter().zip(&data.fpi).take_while(|(x, y)| x == y).count();
                    first_changed_pos = first_changed_pos.min(common);
                    srcs.as_mut().unwrap().sync(&data)
                }
                "redundant" => Ok(()),
                "reimport_out" => {
                    let cv = u32::from(AnyStoredVec::header(&out).computed_version());
                    AnyStoredVec::flush(&mut out)?;
                    db.flush()?;
                    let placeholder: EagerVec<V> = EagerVec::forced_import(&db, "placeholder", Version::new(1))?;
                    drop(std::mem::replace(&mut out, placeholder));
                    let fresh: EagerVec<V> = EagerVec::import(&db, "out", Version::new(own_version))?;
                    let placeholder = std::mem::replace(&mut out, fresh);
                    placeholder.remove()?;
                    let cv2 = u32::from(AnyStoredVec::header(&out).computed_version());
                    if cv != cv2 {
                        return Err(vecdb::Error::InvalidArgument("recorded computed version did not survive flush + re-import"));
                    }
                    Ok(())
                }
                "bump_source_version" => {
                    // a new version of (some of) the inputs always comes with new contents
                    // every input gets a new version (a partial bump could leave the versions
                    // that this particular method combines unchanged)
                    let by = 1 + rng.below(2) as u32;
                    for v in versions.iter_mut() {
                        *v += by;
                    }
                    data = Data::default();
                    let n0 = rng.range(0, 60);
                    data.grow(&mut rng, n0, true);
                    srcs = None; // the old handles must be gone before a forced import may discard their regions
                    srcs = Some(Sources::import(&db, &versions)?);
                    srcs.as_mut().unwrap().sync(&data)?;
                    first_changed_row = 0;
                    first_changed_pos = 0;
                    version_changed = true;
                    Ok(())
                }
                "stamp_only" => {
                    // the caller moves the stamp (header modified, nothing written) between two
                    // computations under unchanged versions
                    AnyStoredVec::update_stamp(&mut out, vecdb::Stamp::new(1000 + step as u64));
                    Ok(())
                }
                "bump_own_version" => {
                    AnyStoredVec::flush(&mut out)?;
                    own_version += 1;
                    // the old handle must be gone before a forced import may discard its regions
                    let placeholder: EagerVec<V> = EagerVec::forced_import(&db, "placeholder", Version::new(1))?;
                    drop(std::mem::replace(&mut out, placeholder));
                    let fresh: EagerVec<V> = EagerVec::forced_import(&db, "out", Version::new(own_version))?;
                    let placeholder = std::mem::replace(&mut out, fresh);
                    placeholder.remove()?;
                    version_changed = true;
                    Ok(())
                }
                _ => Ok(()),
            }
        })();
        if let Err(e) = r {
            let sig = if matches!(e, vecdb::Error::InvalidArgument(_)) { "computed-version-lost" } else { "harness-source-sync" };
            fail(&mut o, format!("{sig}|{kind}"), format!("{kind}: {e}"));
            return o;
        }
        tag = (versions.iter().sum::<u32>() as usize + own_version as usize) % 16;

        // ---- from-scratch reference over the current sources -----------------------------------
        scratch_n += 1;
        let want = scratch::<V, S>(&db, m, srcs.as_ref().unwrap(), own_version, tag, scratch_n);
        // ---- legal starting index --------------------------------------------------------------
        let before: Vec<usize> = ReadableVec::collect(&out);
        let stored_before = AnyStoredVec::stored_len(&out).min(before.len());
        let d = match (&expected, &want) {
            (Some(old), Ok(new)) => old.iter().zip(new).take_while(|(x, y)| x == y).count(),
            _ => 0,
        };
        let limit = if m.row_indexed() { first_changed_row.min(d) } else { first_changed_pos };
        let max_from = if version_changed && cfg.versions {
            // a version change must force a full recomputation whatever the caller passes
            rng.below(before.len() + 2)
        } else {
            match rng.below(10) {
                0 => 0,
                1 | 2 => rng.below(limit + 1),
                _ => limit,
            }
        };
        // ---- a computation that fails part-way ------------------------------------------------
        // (closure families, version histories): the closure reports a wrong index at one row, the
        // call returns an error, whatever it produced so far stays in the vector unflushed and
        // the version it ran under is the one the vector remembers. Nothing is judged here; the
        // following steps (in particular a version change right after) are.
        if cfg.versions
            && matches!(m, M::To | M::Range | M::Transform | M::Transform2 | M::Transform3 | M::Transform4)
            && let Ok(w) = &want
            && rng.chance(1, 4)
        {
            let start = if version_changed { 0 } else { max_from.min(before.len()) };
            if w.len() >= start + 2 {
                let k = start + 1 + rng.below(w.len() - start - 1);
                let log = RefCell::new(vec![]);
                FAIL_AT.with(|c| c.set(Some(k)));
                let res = obs::with_sink(sink.clone(), || catch(|| call(m, &mut out, max_from, srcs.as_ref().unwrap(), &exit, &log, tag)));
                FAIL_AT.with(|c| c.set(None));
                o.stats.bump("step:computation_failed_part_way");
                o.steps.push(json!({"step": kind, "rows": data.rows(), "max_from": max_from, "aborted_at_row": k}));
                match res {
                    Err(p) => {
                        fail(&mut o, format!("failing-closure-panicked|{}", m.name()), format!("{} (step {step}): a closure reporting a wrong index at row {k} made the call panic: {p}", m.describe()));
                        return o;
                    }
                    Ok(Ok(())) => {
                        // the call did not look at the reported index: nothing is known about the
                        // vector now; recompute from 0 next time
                        o.stats.bump("failing_closure_not_noticed");
                        expected = None;
                        first_changed_row = 0;
                        first_changed_pos = 0;
                    }
                    Ok(Err(_)) => {
                        let have: Vec<usize> = ReadableVec::collect(&out);
                        let p = have.iter().zip(w.iter()).take_while(|(x, y)| x == y).count();
                        expected = Some(w[..p].to_vec());
                        first_changed_row = data.a.len().min(data.b.len());
                        first_changed_pos = data.fpi.len();
                        if AnyStoredVec::stored_len(&out) == 0 && !have.is_empty() {
                            o.stats.bump("state:unflushed_rows_only_after_failed_computation");
                        }
                        // the version of this attempt is recorded now
                        version_changed = false;
                    }
                }
                o.hashes.push(2);
                continue;
            }
        }
        // ---- the incremental call --------------------------------------------------------------
        let log = RefCell::new(vec![]);
        batches.set(0);
        let res = obs::with_sink(sink.clone(), || catch(|| call(m, &mut out, max_from, srcs.as_ref().unwrap(), &exit, &log, tag)));
        let nb = batches.get();
        o.stats.add("batch_boundaries", nb);
        if nb > 0 {
            o.stats.bump("calls_with_multiple_batches");
        }
        o.stats.bump("compute_calls");
        let got_res: Result<(), String> = match res {
            Ok(Ok(())) => Ok(()),
            Ok(Err(e)) => Err(format!("error:{}", normalize_msg(&e.to_string()))),
            Err(p) => Err(format!("panic:{}", normalize_msg(&p))),
        };
        let got: Vec<usize> = ReadableVec::collect(&out);
        o.steps.push(json!({"step": kind, "rows": data.rows(), "max_from": max_from, "result_len": got.len(), "batches": nb + 1}));
        if std::env::var("VERIF_DEBUG").is_ok() {
            eprintln!("step {step} {kind}: fpi={:?}\n  before={:?}\n  got={:?}\n  want={:?}\n  max_from={max_from} c_row={first_changed_row} c_pos={first_changed_pos} d={d}", data.fpi, before, got, want);
        }
        let ctx_s = format!("{} (step {step}: {kind}, rows {}, max_from {max_from}, stored before {stored_before})", m.describe(), data.rows());
        match (&want, &got_res) {
            (Err(w), Err(g)) => {
                // both refuse (e.g. Underflow for window 0): consistent; the vector is now in an
                // unspecified partial state - recompute from 0 next time
                o.stats.bump("both_failed");
                let _ = (w, g);
                expected = None;
                first_changed_row = 0;
                first_changed_pos = 0;
                o.hashes.push(1);
                continue;
            }
            (Err(w), Ok(())) => {
                fail(&mut o, format!("scratch-fails-incremental-succeeds|{}", m.name()), format!("{ctx_s}: from scratch -> {w}, incremental call succeeded"));
                return o;
            }
            (Ok(_), Err(g)) => {
                fail(&mut o, format!("incremental-fails|{}|{}", m.name(), g.chars().take(60).collect::<String>()), format!("{ctx_s}: incremental call -> {g}, from scratch succeeded"));
                return o;
            }
            (Ok(w), Ok(())) => {
                if got != *w {
                    let at = got.iter().zip(w).position(|(x, y)| x != y).unwrap_or(got.len().min(w.len()));
                    let class = if got.len() != w.len() { "length" } else { "value" };
                    let vc = if version_changed { "|after-version-change" } else { "" };
                    fail(
                        &mut o,
                        format!("incremental-differs|{}|{class}{vc}{}", m.name(), match m { M::AllTimeLowExcl(x) => format!("|exclude_default={x}"), _ => String::new() }),
                        format!("{ctx_s}: incremental result has {} elements, from scratch {}; first difference at index {at}: {:?} vs {:?}", got.len(), w.len(), got.get(at), w.get(at)),
                    );
                    return o;
                }
                // governing length: shortest row source for the row families
                let rows_min = data.a.len().min(data.b.len());
                let expect_len = match m {
                    M::To | M::Range | M::FromIndex | M::Transform | M::Cumulative | M::CumulativeCount | M::RollingCount(_) | M::CumulativeCountFrom(_) | M::Max(_) | M::Min(_) | M::Sum(_) | M::AllTimeHigh | M::AllTimeLow | M::AllTimeHighFrom(_) | M::AllTimeLowFrom(_) | M::Lookback | M::RollingSum | M::RollingMaxFromStarts | M::RollingMinFromStarts | M::Add | M::Multiply | M::CumulativeTransformedBinary | M::Change(_) | M::AllTimeLowExcl(_) => Some(data.a.len()),
                    M::Transform2 | M::Transform3 | M::Transform4 | M::Subtract | M::Divide | M::Percentage | M::PercentageDiff | M::CumulativeBinary | M::SumOfOthers | M::MinOfOthers | M::MaxOfOthers => Some(rows_min),
                    _ => None,
                };
                if let Some(l) = expect_len
                    && got.len() != l
                {
                    fail(&mut o, format!("length|{}", m.name()), format!("{ctx_s}: result has {} elements but the shortest governing source has {l}", got.len()));
                    return o;
                }
                // C19 clauses
                let logged = log.borrow();
                if version_changed && cfg.versions {
                    o.stats.bump("calls_after_version_change");
                    if m.has_closure() {
                        let mut seen = logged.clone();
                        seen.sort();
                        let all: Vec<usize> = (0..got.len()).collect();
                        if seen != all {
                            fail(&mut o, format!("version-change-not-recomputed-from-0|{}", m.name()), format!("{ctx_s}: after a version change the closure was evaluated for {} indices (first {:?}) instead of exactly 0..{}", seen.len(), seen.first(), got.len()));
                            return o;
                        }
                    }
                } else {
                    o.stats.bump("calls_with_unchanged_version");
                    let keep = max_from.min(stored_before);
                    if m.has_closure() && m.row_indexed() {
                        if let Some(&i) = logged.iter().find(|&&i| i < keep) {
                            fail(&mut o, format!("unchanged-version-reevaluated|{}", m.name()), format!("{ctx_s}: index {i} < min(starting index, stored length) = {keep} was re-evaluated"));
                            return o;
                        }
                        o.stats.add("closure_indices_logged", logged.len() as u64);
                    }
                    if m.row_indexed() && before.len() >= keep && got.len() >= keep && before[..keep] != got[..keep] {
                        fail(&mut o, format!("unchanged-version-prefix-altered|{}", m.name()), format!("{ctx_s}: an element below {keep} changed although the version is unchanged"));
                        return o;
                    }
                }
                if max_from > 0 && max_from < stored_before {
                    o.stats.bump("resume:inside_stored");
                } else if max_from == 0 {
                    o.stats.bump("resume:from_zero");
                } else {
                    o.stats.bump("resume:at_end");
                }
                o.hashes.push(hash_vec(&got));
                expected = Some(got);
                first_changed_row = data.a.len().min(data.b.len());
                first_changed_pos = data.fpi.len();
                version_changed = false;
                if cfg.versions && kind == "bump_source_version" && rng.chance(1, 2) {
                    // the handle goes away without a flush (only what the computation itself wrote is
                    // on disk) and the vector is imported again: if the version recorded on disk is the
                    // current one, every stored element must be a result of the current inputs
                    o.stats.bump("step:drop_without_flush_and_reimport");
                    let r = (|| -> vecdb::Result<()> {
                        let placeholder: EagerVec<V> = EagerVec::forced_import(&db, "placeholder", Version::new(1))?;
                        drop(std::mem::replace(&mut out, placeholder));
                        let fresh: EagerVec<V> = EagerVec::import(&db, "out", Version::new(own_version))?;
                        let placeholder = std::mem::replace(&mut out, fresh);
                        placeholder.remove()?;
                        Ok(())
                    })();
                    if let Err(e) = r {
                        fail(&mut o, "harness-reimport".into(), format!("re-import without flush: {e}"));
                        return o;
                    }
                    scratch_n += 1;
                    let rows: Vec<usize> = ReadableVec::collect(&out);
                    let cv_disk = u32::from(AnyStoredVec::header(&out).computed_version());
                    match scratch_v::<V, S>(&db, m, srcs.as_ref().unwrap(), own_version, tag, scratch_n) {
                        Ok((w2, cv_now)) if cv_now == cv_disk => {
                            if rows.len() > w2.len() || rows[..] != w2[..rows.len()] {
                                let at = rows.iter().zip(&w2).position(|(x, y)| x != y).unwrap_or(w2.len().min(rows.len()));
                                fail(&mut o, format!("versions-mixed-after-reimport|{}", m.name()), format!("{ctx_s}: after dropping the handle without a flush and re-importing, the recorded version is the current one ({cv_disk}) but the {} stored results are not results of the current inputs (first difference at index {at}: {:?} vs {:?})", rows.len(), rows.get(at), w2.get(at)));
                                return o;
                            }
                            first_changed_row = first_changed_row.min(rows.len());
                            expected = Some(rows);
                        }
                        _ => {
                            // an older version is recorded: the next call has to start over
                            version_changed = true;
                            expected = None;
                        }
                    }
                }
            }
        }
    }
    o
}

// ---------------------------------------------------------------------------------------------
// Campaign
// ---------------------------------------------------------------------------------------------

type ERunner = fn(u64, usize, ECfg) -> EOutcome;

fn erunners() -> Vec<(&'static str, ERunner)> {
    macro_rules! r {
        ($n:expr, $v:ty, $s:ty) => {
            ($n, run_eager_history::<$v, $s> as ERunner)
        };
    }
    vec![
        r!("Eager<Bytes>/Bytes", BytesVec<usize, usize>, BytesVec<usize, usize>),
        r!("Eager<LZ4>/Zstd", LZ4Vec<usize, usize>, ZstdVec<usize, usize>),
        r!("Eager<Zstd>/ZeroCopy", ZstdVec<usize, usize>, ZeroCopyVec<usize, usize>),
        r!("Eager<ZeroCopy>/LZ4", ZeroCopyVec<usize, usize>, LZ4Vec<usize, usize>),
        r!("Eager<Bytes>/LZ4", BytesVec<usize, usize>, LZ4Vec<usize, usize>),
        r!("Eager<LZ4>/Bytes", LZ4Vec<usize, usize>, BytesVec<usize, usize>),
    ]
}

pub struct ECampaign {
    pub histories: u64,
    pub calls: u64,
    pub distinct: std::collections::BTreeSet<u64>,
    pub stats: Counter,
    pub per_method: Counter,
    pub multi_batch_per_method: Counter,
    pub samples: Vec<Value>,
    pub cross_limit_compared: u64,
}

/// Runs the campaign once per batch limit. Phase 0 uses the default limit and records the result
/// hashes of every history; the later phases replay the same histories under small limits and
/// must reproduce the same hashes.
pub fn eager_campaign(ctx: &Ctx, report: &Report, secs: f64, tag: u64, prop: &str, cfg: ECfg, limits: &[usize]) -> ECampaign {
    let rs = erunners();
    let n_methods = catalogue(&mut Rng::new(0), 10).len();
    let mut total = ECampaign { histories: 0, calls: 0, distinct: Default::default(), stats: Counter::default(), per_method: Counter::default(), multi_batch_per_method: Counter::default(), samples: vec![], cross_limit_compared: 0 };
    let reference: Mutex<BTreeMap<u64, Vec<u64>>> = Mutex::new(BTreeMap::new());
    let phases = 1 + limits.len();
    let phase_secs = secs / phases as f64;
    for phase in 0..phases {
        let limit = if phase == 0 { None } else { Some(limits[phase - 1]) };
        match limit {
            None => vecdb::verif::reset_knobs(),
            Some(b) => vecdb::verif::set_max_cache_size(b),
        }
        let deadline = ctx.elapsed() + phase_secs;
        let ref_ids: Vec<u64> = reference.lock().unwrap().keys().copied().collect();
        let results = run_shards(ctx.threads, |shard| {
            let mut outs = vec![];
            let mut k = 0u64;
            loop {
                if ctx.elapsed() >= deadline || report.failures_seen() >= 6 {
                    break;
                }
                let id = if phase == 0 {
                    shard as u64 + k * ctx.threads as u64
                } else {
                    let pos = shard + k as usize * ctx.threads;
                    match ref_ids.get(pos) {
                        Some(&id) => id,
                        None => break,
                    }
                };
                k += 1;
                let (rname, runner) = rs[(id as usize / n_methods) % rs.len()];
                let hseed = crate::common::mix64(ctx.seed, crate::common::mix64(tag, id));
                let o = runner(hseed, id as usize % n_methods, cfg);
                if let Some(f) = &o.failed
                    && !report.is_known(&format!("{prop}|{}", f.sig))
                {
                    report.note_failure();
                }
                outs.push((id, rname, o));
            }
            outs
        });
        for outs in results {
            for (id, rname, o) in outs {
                total.histories += 1;
                total.calls += o.stats.get("compute_calls");
                total.stats.merge(&o.stats);
                total.per_method.add(o.method.name(), o.stats.get("compute_calls"));
                total.multi_batch_per_method.add(o.method.name(), o.stats.get("calls_with_multiple_batches"));
                total.stats.add(&format!("limit:{}:histories", limit.map(|b| format!("{b}B")).unwrap_or("default".into())), 1);
                if o.steps.len() >= 3 {
                    total.distinct.insert(fnv(format!("{rname}{}{:?}", o.method.describe(), o.hashes).as_bytes()));
                }
                if total.samples.len() < 3 && id % 11 == 3 {
                    total.samples.push(json!({"vectors": o.label, "method": o.method.describe(), "batch_limit_bytes": limit, "steps": o.steps}));
                }
                if let Some(f) = o.failed {
                    report.violation(
                        ctx,
                        Violation {
                            sig: format!("{prop}|{}", f.sig),
                            what: format!("{}: {}", o.label, f.what),
                            detail: json!({"vectors": o.label, "runner": rname, "history_id": id, "method": o.method.describe(), "batch_limit_bytes": limit, "steps": o.steps, "mismatch": f.what}),
                        },
                    );
                    continue;
                }
                if phase == 0 {
                    reference.lock().unwrap().insert(id, o.hashes);
                } else {
                    total.cross_limit_compared += 1;
                    let r = reference.lock().unwrap();
                    if let Some(h) = r.get(&id)
                        && *h != o.hashes
                    {
                        let at = h.iter().zip(&o.hashes).position(|(x, y)| x != y).unwrap_or(h.len().min(o.hashes.len()));
                        report.violation(
                            ctx,
                            Violation {
                                sig: format!("{prop}|batch-limit-changes-result|{}", o.method.name()),
                                what: format!("{}: {} gives another result with a batch limit of {} bytes than with the default limit (first differing compute call: #{at})", o.label, o.method.describe(), limit.unwrap()),
                                detail: json!({"vectors": o.label, "runner": rname, "history_id": id, "method": o.method.describe(), "batch_limit_bytes": limit, "steps": o.steps}),
                            },
                        );
                    }
                }
            }
        }
    }
    vecdb::verif::reset_knobs();
    total
}

fn coverage_common(c: &ECampaign, limits: &[usize]) -> serde_json::Map<String, Value> {
    let mut m = serde_json::Map::new();
    m.insert("samples".into(), json!(c.samples));
    m.insert("histories".into(), json!(c.histories));
    m.insert("compute_calls_compared_with_from_scratch".into(), json!(c.calls));
    m.insert("compute_calls_per_method".into(), c.per_method.to_json());
    m.insert("calls_spanning_several_internal_batches_per_method".into(), c.multi_batch_per_method.to_json());
    m.insert("batch_boundaries_observed".into(), json!(c.stats.get("batch_boundaries")));
    m.insert("batch_limits_bytes".into(), json!(limits));
    m.insert("histories_replayed_under_another_batch_limit".into(), json!(c.cross_limit_compared));
    m.insert("steps_by_kind".into(), Value::Object(c.stats.0.iter().filter(|(k, _)| k.starts_with("step:")).map(|(k, v)| (k[5..].to_string(), json!(v))).collect()));
    m.insert("resume_positions".into(), Value::Object(c.stats.0.iter().filter(|(k, _)| k.starts_with("resume:")).map(|(k, v)| (k[7..].to_string(), json!(v))).collect()));
    m.insert("calls_where_scratch_and_incremental_both_refused".into(), json!(c.stats.get("both_failed")));
    m
}

pub fn check_c06(ctx: &Ctx) -> i32 {
    let report = Report::new("C06");
    let limits: Vec<usize> = if ctx.tier == Tier::Quick { vec![8, 64 * 8] } else { vec![8, 3 * 8, 64 * 8, 4096 * 8] };
    let c = eager_campaign(ctx, &report, ctx.secs(45.0, 420.0), 6, "C06", ECfg { steps: 7, versions: false }, &limits);
    let n_methods = catalogue(&mut Rng::new(0), 10).len();
    let mut missing = vec![];
    for m in catalogue(&mut Rng::new(0), 10) {
        if c.per_method.get(m.name()) == 0 {
            missing.push(m.name());
        }
        if c.multi_batch_per_method.get(m.name()) == 0 {
            report.inconclusive(format!("no multi-batch execution observed for {}", m.name()));
        }
    }
    if !missing.is_empty() {
        report.inconclusive(format!("methods never executed: {missing:?}"));
    }
    if c.calls == 0 {
        report.harness_error("no compute call was executed");
    }
    let mut cov = coverage_common(&c, &limits);
    cov.insert("evaluations".into(), json!(c.calls));
    cov.insert("distinct_nontrivial".into(), json!(c.distinct.len()));
    cov.insert("methods_in_catalogue".into(), json!(n_methods));
    cov.insert("rule".into(), json!("one evaluation = one incremental compute_* call whose stored result (collect()) is compared element by element with the same method run from scratch on a fresh vector over the sources' current contents. Histories: initial fill, appends, truncation followed by regrowth with different values, redundant calls, flush + re-import of the result in between; the starting index passed is <= min(first changed source row, first index at which the from-scratch results over old and new sources differ), so the caller contract holds also for look-ahead methods. Output I = T = usize, exact integer arithmetic only (the float families - sma/ema/rma/sd/zscore/median/ratio/cagr/percentage_change/previous_value - are outside 'exact arithmetic'); sources and result in Bytes/ZeroCopy/LZ4/Zstd combinations; window sizes 0,1,2,3,len-1,len,len+1,usize::MAX,random. Each history is re-run under internal batch limits of 1, (3,) 64 (and 4096) elements and must reproduce the per-call result hashes obtained with the default limit. distinct_nontrivial = distinct (vector types, method+parameters, per-call result hashes) with >= 3 compute calls"));
    report.finish(ctx, "exploration", Value::Object(cov), &["the from-scratch run of the same method is the reference (a formula that is wrong in both runs is not a C06 violation)", "documented panics are avoided by construction (no unsigned underflow in subtract/change, no zero divisor, monotone window starts)"])
}

pub fn check_c19(ctx: &Ctx) -> i32 {
    let report = Report::new("C19");
    let limits: Vec<usize> = vec![64 * 8];
    let c = eager_campaign(ctx, &report, ctx.secs(30.0, 300.0), 19, "C19", ECfg { steps: 9, versions: true }, &limits);
    if c.stats.get("calls_after_version_change") == 0 || c.stats.get("calls_with_unchanged_version") == 0 {
        report.harness_error("version-change and unchanged-version calls were not both exercised");
    }
    if c.stats.get("step:reimport_out") == 0 {
        report.inconclusive("no flush + re-import of the computed vector happened");
    }
    let mut cov = coverage_common(&c, &limits);
    cov.insert("evaluations".into(), json!(c.calls));
    cov.insert("distinct_nontrivial".into(), json!(c.distinct.len()));
    cov.insert("calls_after_version_change".into(), json!(c.stats.get("calls_after_version_change")));
    cov.insert("calls_with_unchanged_version".into(), json!(c.stats.get("calls_with_unchanged_version")));
    cov.insert("closure_indices_logged_under_unchanged_version".into(), json!(c.stats.get("closure_indices_logged")));
    cov.insert("rule".into(), json!("one evaluation = one compute_* call inside a history that varies the versions of the inputs (sources re-created under a higher version, always with new contents), the vector's own version (forced re-import under a higher version) and the starting index, interleaved with appends, truncate+regrow, flush + re-import. After a version change the call (with an arbitrary starting index) must yield exactly the from-scratch result over the new inputs, and - for the closure-taking families compute_to/range/transform/transform2/3/4, whose closure logs every index and stamps the version into each result - the closure must have been evaluated for exactly 0..len. With an unchanged version no index below min(starting index, stored length) may be handed to the closure and no stored element below it may change. header().computed_version() must be identical before and after flush + re-import. distinct_nontrivial as in C06"));
    report.finish(ctx, "exploration", Value::Object(cov), &["'not re-evaluated' is decided only for the closure-taking families; for the others stale results are recognised by value (a version bump always comes with different source contents)"])
}

/// `--replay <file>` for C06 / C19: re-runs the recorded history (same seed, runner, method and
/// batch limit) and prints every step.
pub fn replay_eager(ctx: &Ctx, tag: u64, cfg: ECfg) -> i32 {
    let path = ctx.replay.as_ref().unwrap();
    let Ok(text) = std::fs::read_to_string(path) else {
        eprintln!("cannot read {}", path.display());
        return 2;
    };
    let Ok(v) = serde_json::from_str::<Value>(&text) else { return 2 };
    let d = &v["detail"];
    let seed = v["seed"].as_u64().unwrap_or(1);
    let id = d["history_id"].as_u64().unwrap_or(0);
    let rname = d["runner"].as_str().unwrap_or("");
    let Some((_, runner)) = erunners().into_iter().find(|(n, _)| *n == rname) else {
        eprintln!("unknown runner {rname}");
        return 2;
    };
    match d["batch_limit_bytes"].as_u64() {
        Some(b) => vecdb::verif::set_max_cache_size(b as usize),
        None => vecdb::verif::reset_knobs(),
    }
    let n_methods = catalogue(&mut Rng::new(0), 10).len();
    let hseed = crate::common::mix64(seed, crate::common::mix64(tag, id));
    let o = runner(hseed, id as usize % n_methods, cfg);
    println!("replayed history {id} on {} with {}: steps {}", o.label, o.method.describe(), Value::Array(o.steps.clone()));
    println!("per-call result hashes: {:?}", o.hashes);
    match o.failed {
        Some(f) => {
            println!("VIOLATION property={} replay={} sig={} :: {}", ctx.prop, path.display(), f.sig, f.what);
            1
        }
        None => {
            println!("OK replay passed (note: a batch-limit disagreement shows as differing hashes between two replays)");
            0
        }
    }
}
