//! Read-path probes (C08) and the access monitor (C20): in a given vector state every read
//! API is driven over a grid of ranges / index lists and compared with the reference contents,
//! while every byte fetched from the mapping or the data file is checked against the vector's
//! own regions.

use std::{cell::RefCell, rc::Rc};

use rawdb::verif::Event;
use vecdb::{AnyVec, CachedVec, ReadableVec, TypedVec};

use crate::{
    common::{Counter, Rng, catch, normalize_msg},
    obs,
    vecmodel::{Elem, VMismatch, VecExec, VecLike},
};

#[derive(Clone, Debug)]
pub struct ProbeCfg {
    pub every: usize,
    pub pairs: usize,
    /// check accesses (C20)
    pub access: bool,
    /// compare values (C08); when false only the access monitor judges
    pub values: bool,
}

type Fail = (String, String);

fn expect_range<T: Elem>(slots: &[Option<T>], from: usize, to: usize) -> Vec<T> {
    let len = slots.len();
    let from = from.min(len);
    let to = to.min(len);
    if from >= to {
        return vec![];
    }
    slots[from..to].iter().flatten().copied().collect()
}

fn same<T: Elem>(got: &[T], want: &[T]) -> bool {
    got.len() == want.len() && got.iter().zip(want).all(|(a, b)| a.key() == b.key())
}

fn fail<T: Elem>(api: &str, from: usize, to: usize, got: &[T], want: &[T]) -> Fail {
    let at = got.iter().zip(want).position(|(a, b)| a.key() != b.key());
    (
        format!("{api}|value"),
        format!(
            "{api}({from},{to}) returned {} elements, reference {} (first difference at {:?}: got {:?} want {:?})",
            got.len(),
            want.len(),
            at,
            at.map(|i| got[i]),
            at.map(|i| want[i])
        ),
    )
}

/// The (from, to) grid for a vector of `len` slots.
pub fn range_grid(rng: &mut Rng, len: usize, marks: &[usize], n: usize) -> Vec<(usize, usize)> {
    let mut pts: Vec<usize> = vec![0, 1, len.saturating_sub(1), len, len + 1, len + 1000, usize::MAX];
    for &m in marks {
        pts.extend([m.saturating_sub(1), m, m + 1]);
    }
    pts.sort();
    pts.dedup();
    let mut out = vec![(0, len), (0, usize::MAX), (len, 0), (usize::MAX, usize::MAX)];
    while out.len() < n {
        let a = *rng.pick(&pts);
        let b = if rng.chance(1, 4) && len > 0 { rng.below(len + 2) } else { *rng.pick(&pts) };
        out.push(if rng.chance(1, 8) { (b.max(a), a.min(b)) } else { (a.min(b), a.max(b)) });
        if len > 0 && rng.chance(1, 3) {
            let a = rng.below(len);
            let b = a + rng.below(40);
            out.push((a, b));
        }
    }
    out
}

/// Checks every read API of `r` against `slots` (None = deleted slot). `dense` views have no
/// deleted slots. `sequential_ok` = cursor `next`/`fold` are position-addressed and checked.
pub fn check_readable<T: Elem, R: ReadableVec<usize, T>>(
    r: &R,
    slots: &[Option<T>],
    rng: &mut Rng,
    marks: &[usize],
    pairs: usize,
    stats: &mut Counter,
    view: &str,
) -> Result<(), Fail> {
    let len = slots.len();
    let holey = slots.iter().any(|s| s.is_none());
    if r.len() != len {
        return Err(("len".into(), format!("len() = {} but reference has {len} slots", r.len())));
    }
    let all = expect_range(slots, 0, len);
    // whole-vector APIs
    {
        let got = r.collect();
        if !same(&got, &all) {
            return Err(fail("collect", 0, len, &got, &all));
        }
        let got = r.collect_dyn();
        if !same(&got, &all) {
            return Err(fail("collect_dyn", 0, len, &got, &all));
        }
        let got = r.fold(vec![], |mut a, v| {
            a.push(v);
            a
        });
        if !same(&got, &all) {
            return Err(fail("fold", 0, len, &got, &all));
        }
        let mut got = vec![];
        r.for_each(|v| got.push(v));
        if !same(&got, &all) {
            return Err(fail("for_each", 0, len, &got, &all));
        }
        if !holey {
            let f = r.collect_first().map(|x| x.key());
            let l = r.collect_last().map(|x| x.key());
            if f != all.first().map(|x| x.key()) || l != all.last().map(|x| x.key()) {
                return Err(("collect_first_last|value".into(), format!("collect_first/last = {f:?}/{l:?}")));
            }
        }
        stats.add(&format!("api:{view}:whole"), 5);
    }
    for (from, to) in range_grid(rng, len, marks, pairs) {
        let want = expect_range(slots, from, to);
        let got = r.collect_range_at(from, to);
        if !same(&got, &want) {
            return Err(fail("collect_range_at", from, to, &got, &want));
        }
        let got = r.collect_range_dyn(from, to);
        if !same(&got, &want) {
            return Err(fail("collect_range_dyn", from, to, &got, &want));
        }
        // read_into_at must append
        let sentinel = T::make(987_654_321);
        let mut buf = vec![sentinel, sentinel];
        r.read_into_at(from, to, &mut buf);
        if buf.len() < 2 || buf[0].key() != sentinel.key() || buf[1].key() != sentinel.key() {
            return Err(("read_into_at|clobbered-buffer".into(), format!("read_into_at({from},{to}) did not append")));
        }
        if !same(&buf[2..], &want) {
            return Err(fail("read_into_at", from, to, &buf[2..], &want));
        }
        let mut buf2 = vec![sentinel];
        r.collect_range_into_at(from, to, &mut buf2);
        if !same(&buf2, &want) {
            return Err(fail("collect_range_into_at", from, to, &buf2, &want));
        }
        let got = r.fold_range_at(from, to, vec![], |mut a, v| {
            a.push(v);
            a
        });
        if !same(&got, &want) {
            return Err(fail("fold_range_at", from, to, &got, &want));
        }
        let got: Result<Vec<T>, ()> = r.try_fold_range_at(from, to, vec![], |mut a, v| {
            a.push(v);
            Ok(a)
        });
        if !same(got.as_ref().unwrap(), &want) {
            return Err(fail("try_fold_range_at", from, to, got.as_ref().unwrap(), &want));
        }
        // early exit after k elements
        if !want.is_empty() {
            let k = rng.below(want.len());
            let mut seen = vec![];
            let res: Result<(), usize> = r.try_fold_range_at(from, to, (), |(), v| {
                if seen.len() == k {
                    return Err(seen.len());
                }
                seen.push(v);
                Ok(())
            });
            if res != Err(k) || !same(&seen, &want[..k]) {
                return Err(("try_fold_range_at(early-exit)|value".into(), format!("try_fold_range_at({from},{to}) early exit after {k}: result {res:?}, saw {} elements", seen.len())));
            }
            let res: Result<(), usize> = r.try_for_each_range_at(from, to, |_| Err(7));
            if res != Err(7) {
                return Err(("try_for_each_range_at|value".into(), "early exit not propagated".into()));
            }
        }
        let mut got = vec![];
        r.for_each_range_dyn_at(from, to, &mut |v| got.push(v));
        if !same(&got, &want) {
            return Err(fail("for_each_range_dyn_at", from, to, &got, &want));
        }
        let mut got = vec![];
        r.for_each_range_at(from, to, |v| got.push(v));
        if !same(&got, &want) {
            return Err(fail("for_each_range_at", from, to, &got, &want));
        }
        // typed-index wrappers (I = usize)
        let got = r.collect_range(from, to);
        if !same(&got, &want) {
            return Err(fail("collect_range", from, to, &got, &want));
        }
        let got = r.fold_range(from, to, vec![], |mut a, v| {
            a.push(v);
            a
        });
        if !same(&got, &want) {
            return Err(fail("fold_range", from, to, &got, &want));
        }
        // signed ranges (only representable bounds)
        if from <= i64::MAX as usize && to <= i64::MAX as usize {
            let got = r.collect_signed_range(Some(from as i64), Some(to as i64));
            if !same(&got, &want) {
                return Err(fail("collect_signed_range", from, to, &got, &want));
            }
            if from <= len && to <= len && len > 0 {
                // python-style negative indices for the same bounds
                let nf = from as i64 - len as i64;
                let nt = to as i64 - len as i64;
                if nf < 0 && nt < 0 {
                    let got = r.collect_signed_range_dyn(Some(nf), Some(nt));
                    if !same(&got, &want) {
                        return Err(fail("collect_signed_range(negative)", from, to, &got, &want));
                    }
                }
            }
        }
        T::check_aggregates(r, from, to, &want)?;
        stats.add(&format!("api:{view}:ranges"), 14);
    }
    // index-addressed reads
    let mut idxs: Vec<usize> = vec![0, len.saturating_sub(1), len, len + 1, usize::MAX];
    for &m in marks {
        idxs.extend([m.saturating_sub(1), m]);
    }
    for _ in 0..12 {
        if len > 0 {
            idxs.push(rng.below(len));
        }
    }
    for &i in &idxs {
        let want = slots.get(i).copied().flatten().map(|x| x.key());
        let got = r.collect_one_at(i).map(|x| x.key());
        if got != want {
            return Err(("collect_one_at|value".into(), format!("collect_one_at({i}) = {got:?}, reference {want:?} (len {len})")));
        }
        if r.collect_one(i).map(|x| x.key()) != want {
            return Err(("collect_one|value".into(), format!("collect_one({i}) differs")));
        }
    }
    stats.add(&format!("api:{view}:index"), idxs.len() as u64 * 2);
    // sorted reads: ascending, duplicates, out-of-range tail
    {
        let mut list: Vec<usize> = (0..rng.range(1, 30)).map(|_| if len > 0 { rng.below(len + 3) } else { rng.below(3) }).collect();
        if let Some(&x) = list.first() {
            list.push(x);
        }
        list.sort();
        list.push(len + 5);
        let want: Vec<T> = list.iter().filter_map(|&i| slots.get(i).copied().flatten()).collect();
        let got = r.read_sorted_at(&list);
        if !same(&got, &want) {
            let mut f = fail("read_sorted_at", 0, 0, &got, &want);
            f.1 = format!("{} indices {:?}", f.1, &list[..list.len().min(12)]);
            return Err(f);
        }
        let got = r.read_sorted(&list);
        if !same(&got, &want) {
            return Err(fail("read_sorted", 0, 0, &got, &want));
        }
        stats.add(&format!("api:{view}:sorted"), 2);
    }
    // cursor
    {
        let mut c = r.cursor();
        if !holey {
            let mut pos = 0usize;
            for _ in 0..rng.range(1, 6) {
                match rng.below(4) {
                    0 => {
                        let k = rng.range(1, 5);
                        for _ in 0..k {
                            let got = c.next().map(|x| x.key());
                            let want = all.get(pos).map(|x| x.key());
                            if got != want {
                                return Err(("cursor.next|value".into(), format!("cursor.next() at {pos} = {got:?}, reference {want:?}")));
                            }
                            if pos < len {
                                pos += 1;
                            }
                        }
                    }
                    1 => {
                        let n = match rng.below(3) {
                            0 => rng.below(10),
                            1 => rng.below(5000),
                            _ => usize::MAX,
                        };
                        c.advance(n);
                        pos = pos.saturating_add(n).min(len);
                    }
                    2 => {
                        let n = rng.below(6000);
                        let got = c.fold(n, vec![], |mut a, v| {
                            a.push(v);
                            a
                        });
                        let end = pos.saturating_add(n).min(len);
                        if !same(&got, &all[pos..end]) {
                            return Err(fail("cursor.fold", pos, end, &got, &all[pos..end]));
                        }
                        pos = end;
                    }
                    _ => {
                        if c.position() != pos || c.remaining() != len - pos {
                            return Err(("cursor.position|value".into(), format!("cursor position {} remaining {} but reference {pos}/{}", c.position(), c.remaining(), len - pos)));
                        }
                    }
                }
            }
        }
        for &i in idxs.iter().take(8) {
            let want = slots.get(i).copied().flatten().map(|x| x.key());
            let got = c.get(i).map(|x| x.key());
            if got != want {
                return Err(("cursor.get|value".into(), format!("cursor.get({i}) = {got:?}, reference {want:?} (len {len}, deleted slots: {holey})")));
            }
        }
        stats.add(&format!("api:{view}:cursor"), 1);
    }
    Ok(())
}

/// min / max / sum for integer element types.
pub trait Aggregates: Sized + Clone + std::fmt::Debug + Send + Sync + 'static {
    fn check_aggregates<R: ReadableVec<usize, Self>>(_r: &R, _from: usize, _to: usize, _want: &[Self]) -> Result<(), Fail> {
        Ok(())
    }
}

macro_rules! agg_int {
    ($($t:ty),*) => {$(
        impl Aggregates for $t {
            fn check_aggregates<R: ReadableVec<usize, Self>>(r: &R, from: usize, to: usize, want: &[Self]) -> Result<(), Fail> {
                let mn = want.iter().copied().min();
                let mx = want.iter().copied().max();
                if r.min_at(from, to) != mn || r.min_dyn(from, to) != mn || r.min(from, to) != mn {
                    return Err(("min|value".into(), format!("min({from},{to}) differs from reference {mn:?}")));
                }
                if r.max_at(from, to) != mx || r.max_dyn(from, to) != mx || r.max(from, to) != mx {
                    return Err(("max|value".into(), format!("max({from},{to}) differs from reference {mx:?}")));
                }
                // sum only where it cannot overflow (overflow behaviour depends on the build profile)
                let mut s: u128 = 0;
                let mut ok = true;
                for &v in want {
                    if (v as i128) < 0 { ok = false; break; }
                    s += v as u128;
                }
                if ok && s <= <$t>::MAX as u128 {
                    let sm = if want.is_empty() { None } else { Some(s as $t) };
                    if r.sum_at(from, to) != sm || r.sum_dyn(from, to) != sm || r.sum(from, to) != sm {
                        return Err(("sum|value".into(), format!("sum({from},{to}) differs from reference {sm:?}")));
                    }
                }
                Ok(())
            }
        }
    )*};
}
agg_int!(u8, u16, u32, u64, i64);
impl Aggregates for u128 {}
impl Aggregates for f32 {}
impl Aggregates for f64 {}
impl Aggregates for [u8; 3] {}
impl Aggregates for [u8; 16] {}
impl Aggregates for [u8; 33] {}
impl Aggregates for crate::vecmodel::WB {}
impl Aggregates for crate::vecmodel::WP {}

// ---------------------------------------------------------------------------------------------
// Access monitor (C20)
// ---------------------------------------------------------------------------------------------

#[derive(Default)]
pub struct AccessLog {
    pub checked: u64,
    pub sites: std::collections::BTreeMap<&'static str, u64>,
    pub first_bad: Option<(String, String)>,
}

/// Builds a sink that checks every Access / FileRead event against the valid data of the
/// vector's own regions: `ranges` = absolute data-file ranges [start, start+len) per region.
pub fn access_sink(mmap_base: usize, mmap_len: usize, ranges: Vec<(usize, usize, String)>, log: Rc<RefCell<AccessLog>>) -> obs::Sink {
    Rc::new(move |e: &Event<'_>| {
        let (off, len, site, kind) = match e {
            Event::Access { ptr, len, site } => {
                if *ptr < mmap_base || *ptr >= mmap_base + mmap_len {
                    // not a pointer into the data mapping (e.g. the regions file during import)
                    return;
                }
                (*ptr - mmap_base, *len, *site, "mmap")
            }
            Event::FileRead { file_off, len, site } => (*file_off, *len, *site, "file"),
            _ => return,
        };
        let mut l = log.borrow_mut();
        l.checked += 1;
        *l.sites.entry(site).or_insert(0) += 1;
        if len == 0 {
            return;
        }
        let inside = ranges.iter().any(|(s, e, _)| off >= *s && off + len <= *e);
        if !inside && l.first_bad.is_none() {
            let near = ranges
                .iter()
                .find(|(s, _, _)| off >= *s)
                .map(|(s, e, n)| format!("region '{n}' valid data {s}..{e}"))
                .unwrap_or_else(|| "no region of this vector".into());
            let beyond_len = ranges.iter().any(|(s, e, _)| off >= *s && off < *e + (1 << 30) && off + len > *e);
            l.first_bad = Some((
                format!("{kind}|site={site}|{}", if beyond_len { "beyond-region-len" } else { "foreign-bytes" }),
                format!("{site}: {kind} read of {len} bytes at data-file offset {off} is outside the vector's valid data ({near})"),
            ));
        }
    })
}

pub fn vector_ranges(db: &vecdb::Database, names: &[String]) -> Vec<(usize, usize, String)> {
    let mut out = vec![];
    for n in names {
        if let Some(r) = db.get_region(n) {
            let m = r.meta();
            out.push((m.start(), m.start() + m.len(), n.clone()));
        }
    }
    out
}

// ---------------------------------------------------------------------------------------------
// Probe driver
// ---------------------------------------------------------------------------------------------

fn state_class<V: VecLike>(ex: &VecExec<V>) -> String {
    let v = ex.v();
    let mut c = vec![];
    if v.v_len() > v.v_stored_len() {
        c.push("pushed");
    }
    if v.v_stored_len() < v.v_real_stored_len() {
        c.push("truncated");
    }
    if v.v_stored_len() > v.v_real_stored_len() {
        c.push("expanded");
    }
    if !ex.model.holes().is_empty() {
        c.push("holes");
    }
    if ex.model.stored.is_none() {
        c.push("stored-view-undetermined");
    }
    if c.is_empty() { "clean".into() } else { c.join("+") }
}

pub fn probe_reads<V: VecLike>(ex: &mut VecExec<V>, rng: &mut Rng, cfg: &ProbeCfg) -> Result<(), VMismatch>
where
    V::E: Aggregates,
{
    let class = state_class(ex);
    let db = ex.db.clone();
    let names = ex.v().v_region_names();
    let ranges = vector_ranges(&db, &names);
    let (base, mlen) = {
        let m = db.mmap();
        (m.as_ptr() as usize, m.len())
    };
    let log = Rc::new(RefCell::new(AccessLog::default()));
    let mut stats = Counter::default();
    let pp = V::per_page();
    let stored = ex.v().v_stored_len();
    let marks: Vec<usize> = if pp > 0 { vec![stored, pp, 2 * pp] } else { vec![stored] };
    let slots = ex.model.cur.items.clone();
    let stored_view: Option<Vec<Option<V::E>>> = ex.model.stored.as_ref().map(|s| s.iter().map(|x| Some(*x)).collect());
    let values = cfg.values;
    let pairs = cfg.pairs;

    let old = ex.old_ro.take();
    let v = ex.v();
    let run = |rng: &mut Rng, stats: &mut Counter| -> Result<(), (String, Fail)> {
        let tag = |view: &'static str| move |f: Fail| (view.to_string(), f);
        let dummy: Vec<Option<V::E>>;
        // logical view: the read-write vector itself
        if values {
            check_readable(v, &slots, rng, &marks, pairs, stats, "rw").map_err(tag("rw"))?;
        } else {
            // drive the APIs for the access monitor only
            let _ = v.collect();
            let _ = v.collect_range_at(0, usize::MAX);
            for i in [0, stored.saturating_sub(1), stored, slots.len().saturating_sub(1)] {
                let _ = v.collect_one_at(i);
            }
        }
        // stored-only views
        let ro = v.v_ro();
        let boxed = v.v_boxed();
        match &stored_view {
            Some(sv) if values => {
                check_readable(&ro, sv, rng, &marks, pairs / 2 + 1, stats, "ro-clone").map_err(tag("ro-clone"))?;
                check_boxed::<V::E>(&*boxed, sv).map_err(tag("boxed-clone"))?;
                let cached = CachedVec::wrap(ro.clone());
                check_cached(&cached, sv, rng, &marks, stats).map_err(tag("cached"))?;
                let idx: Vec<usize> = (0..10).map(|_| rng.below(sv.len() + 2)).chain([0, sv.len(), usize::MAX]).collect();
                if let Some((len, got)) = v.v_reader_get(&idx) {
                    check_reader::<V::E>(len, &got, &idx, sv).map_err(tag("VecReader"))?;
                }
                if let Some((len, got)) = V::v_ro_reader_get(&ro, &idx) {
                    check_reader::<V::E>(len, &got, &idx, sv).map_err(tag("VecReader(ro)"))?;
                }
                for (from, to) in range_grid(rng, sv.len(), &marks, 6) {
                    let want = expect_range(sv, from, to);
                    if let Some(got) = v.v_fold_stored_io(from, to)
                        && !same(&got, &want)
                    {
                        return Err(("fold_stored_io".into(), fail("fold_stored_io", from, to, &got, &want)));
                    }
                    if let Some(got) = v.v_fold_stored_mmap(from, to)
                        && !same(&got, &want)
                    {
                        return Err(("fold_stored_mmap".into(), fail("fold_stored_mmap", from, to, &got, &want)));
                    }
                }
                stats.bump("api:stored-views");
            }
            _ => {
                // contents not determined by the model (or values not judged): exercise the
                // paths for the access monitor / no-panic clause only
                dummy = vec![];
                let _ = &dummy;
                let n = ro.len();
                let _ = ro.collect();
                let _ = ro.collect_range_at(0, usize::MAX);
                let _ = ro.collect_one_at(n.saturating_sub(1));
                let _ = boxed.collect_range_dyn(0, usize::MAX);
                let idx = [0, n.saturating_sub(1), n];
                let _ = v.v_reader_get(&idx);
                let _ = V::v_ro_reader_get(&ro, &idx);
                let _ = v.v_fold_stored_io(0, usize::MAX);
                let _ = v.v_fold_stored_mmap(0, usize::MAX);
                stats.bump("api:stored-views(no-value-oracle)");
            }
        }
        // a clone taken at the end of the previous probe, before whatever happened since
        if let Some(old) = &old {
            match &stored_view {
                Some(sv) if values => check_readable(old, sv, rng, &marks, 3, stats, "ro-clone(old)").map_err(tag("ro-clone(old)"))?,
                _ => {
                    let n = old.len();
                    let _ = old.collect();
                    let _ = old.collect_one_at(n.saturating_sub(1));
                    let _ = old.collect_one_at(n);
                    let _ = old.collect_range_at(0, usize::MAX);
                }
            }
            stats.bump("api:old-ro-clone");
        }
        if let Some(i) = slots.iter().position(|s| s.is_some())
            && let Some(got) = v.v_read_ref(i)
        {
            // read_ref returns None for pushed / updated / deleted slots, else the stored value
            if let Some(g) = got
                && values
                && g.key() != slots[i].unwrap().key()
            {
                return Err(("read_ref".into(), ("read_ref|value".into(), format!("read_ref({i}) returned a different value"))));
            }
        }
        Ok(())
    };

    let res = if cfg.access {
        let sink = access_sink(base, mlen, ranges, log.clone());
        obs::with_sink(sink, || catch(|| run(rng, &mut stats)))
    } else {
        catch(|| run(rng, &mut stats))
    };
    ex.stats.merge(&stats);
    ex.stats.bump(&format!("probe:state:{class}"));
    drop(old);
    // keep a clone for the next probe (only while the vector has no holes region: a clone made
    // now must not pin a region the writer may have to remove later)
    ex.old_ro = if ex.model.holes().is_empty() && !ex.holes_region_exists() { Some(ex.v().v_ro()) } else { None };
    {
        let l = log.borrow();
        ex.stats.add("access:events_checked", l.checked);
        for (s, n) in &l.sites {
            ex.stats.add(&format!("access:site:{s}"), *n);
        }
        if let Some((sig, what)) = &l.first_bad {
            return Err(VMismatch {
                sig: format!("access|{sig}|state={class}"),
                what: format!("in state [{class}]: {what}"),
            });
        }
    }
    match res {
        Ok(Ok(())) => Ok(()),
        Ok(Err((view, (sig, what)))) => Err(VMismatch {
            sig: format!("read|view={view}|{sig}|state={class}"),
            what: format!("{view} in state [{class}]: {what}"),
        }),
        Err(p) => Err(VMismatch {
            sig: format!("read|panic|{}|state={class}", normalize_msg(&p)),
            what: format!("a read API panicked in state [{class}]: {p}"),
        }),
    }
}

fn check_boxed<T: Elem>(b: &dyn vecdb::ReadableCloneableVec<usize, T>, sv: &[Option<T>]) -> Result<(), Fail> {
    let want = expect_range(sv, 0, sv.len());
    let got = b.collect_range_dyn(0, usize::MAX);
    if !same(&got, &want) {
        return Err(fail("boxed.collect_range_dyn", 0, usize::MAX, &got, &want));
    }
    let got = b.collect_dyn();
    if !same(&got, &want) {
        return Err(fail("boxed.collect_dyn", 0, sv.len(), &got, &want));
    }
    if b.len() != sv.len() {
        return Err(("boxed.len".into(), "len differs".into()));
    }
    if !sv.is_empty() {
        let i = sv.len() / 2;
        if b.collect_one_at(i).map(|x| x.key()) != sv[i].map(|x| x.key()) {
            return Err(("boxed.collect_one_at|value".into(), format!("boxed.collect_one_at({i}) differs")));
        }
    }
    let c2 = b.read_only_boxed_clone();
    if c2.len() != sv.len() {
        return Err(("boxed.clone.len".into(), "len differs".into()));
    }
    Ok(())
}

fn check_cached<T: Elem, R: ReadableVec<usize, T> + TypedVec<I = usize, T = T>>(
    c: &CachedVec<R>,
    sv: &[Option<T>],
    rng: &mut Rng,
    marks: &[usize],
    stats: &mut Counter,
) -> Result<(), Fail> {
    check_readable(c, sv, rng, marks, 4, stats, "cached")?;
    let snap = c.cached();
    let want = expect_range(sv, 0, sv.len());
    if !same(&snap, &want) {
        return Err(fail("cached()", 0, sv.len(), &snap, &want));
    }
    if !sv.is_empty() {
        let i = rng.below(sv.len());
        if c.get_at(i).map(|x| x.key()) != sv[i].map(|x| x.key()) {
            return Err(("cached.get_at|value".into(), format!("get_at({i}) differs")));
        }
    }
    if c.get_at(sv.len()).is_some() {
        return Err(("cached.get_at|value".into(), "get_at(len) returned a value".into()));
    }
    Ok(())
}

fn check_reader<T: Elem>(len: usize, got: &[Option<T>], idx: &[usize], sv: &[Option<T>]) -> Result<(), Fail> {
    if len != sv.len() {
        return Err(("reader.len".into(), format!("reader len {len}, reference {}", sv.len())));
    }
    for (g, &i) in got.iter().zip(idx) {
        let want = sv.get(i).copied().flatten().map(|x| x.key());
        if g.map(|x| x.key()) != want {
            return Err(("reader.try_get|value".into(), format!("try_get({i}) = {:?}, reference {want:?}", g)));
        }
    }
    Ok(())
}
