//! E-CRASH: durable-image simulator. Consumes the durable-image events of one database
//! (single-threaded histories) into a shadow of both files and materialises crash images
//! that are opened with the real `Database::open`.

use std::{
    cell::RefCell,
    collections::BTreeMap,
    fs::{self, OpenOptions},
    os::unix::fs::FileExt,
    path::Path,
    rc::Rc,
};

use rawdb::{
    PAGE_SIZE,
    verif::{Event, FileId},
};

use crate::common::Rng;

#[derive(Debug, Clone)]
pub enum DEv {
    Write { file: FileId, off: usize, bytes: Vec<u8> },
    SetLen { file: FileId, len: usize },
    Sync { file: FileId },
    Punch { off: usize, len: usize },
}

impl DEv {
    pub fn kind(&self) -> &'static str {
        match self {
            DEv::Write { file: FileId::Data, .. } => "MmapWrite(data)",
            DEv::Write { file: FileId::Regions, .. } => "MmapWrite(regions)",
            DEv::SetLen { file: FileId::Data, .. } => "SetLen(data)",
            DEv::SetLen { file: FileId::Regions, .. } => "SetLen(regions)",
            DEv::Sync { file: FileId::Data } => "Sync(data)",
            DEv::Sync { file: FileId::Regions } => "Sync(regions)",
            DEv::Punch { .. } => "Punch",
        }
    }

    pub fn brief(&self) -> String {
        match self {
            DEv::Write { file, off, bytes } => format!("MmapWrite({file:?}, off={off}, len={})", bytes.len()),
            DEv::SetLen { file, len } => format!("SetLen({file:?}, {len})"),
            DEv::Sync { file } => format!("Sync({file:?})"),
            DEv::Punch { off, len } => format!("Punch(off={off}, len={len})"),
        }
    }
}

/// Thread-local event recorder; install with `obs::with_sink(recorder.sink(), ..)`.
#[derive(Clone, Default)]
pub struct Recorder {
    pub log: Rc<RefCell<Vec<DEv>>>,
}

impl Recorder {
    pub fn sink(&self) -> crate::obs::Sink {
        let log = self.log.clone();
        Rc::new(move |e: &Event<'_>| {
            let ev = match e {
                Event::MmapWrite { file, off, bytes } => DEv::Write { file: *file, off: *off, bytes: bytes.to_vec() },
                Event::SetLen { file, len } => DEv::SetLen { file: *file, len: *len },
                Event::Sync { file } => DEv::Sync { file: *file },
                Event::Punch { off, len } => DEv::Punch { off: *off, len: *len },
                _ => return,
            };
            log.borrow_mut().push(ev);
        })
    }

    pub fn drain(&self) -> Vec<DEv> {
        std::mem::take(&mut *self.log.borrow_mut())
    }
}

const MAX_VERSIONS: usize = 10;

#[derive(Default, Clone)]
pub struct FileShadow {
    pub cache: Vec<u8>,
    pub durable: Vec<u8>,
    /// page -> versions written since the last sync (oldest first; the last one equals `cache`).
    pub dirty: BTreeMap<usize, Vec<Vec<u8>>>,
}

impl FileShadow {
    fn set_len(&mut self, len: usize) {
        if len > self.cache.len() {
            self.cache.resize(len, 0);
        }
        if len > self.durable.len() {
            self.durable.resize(len, 0);
        }
    }

    fn write(&mut self, off: usize, bytes: &[u8]) -> Result<(), String> {
        let end = off + bytes.len();
        if end > self.cache.len() {
            return Err(format!("mmap write {off}+{} beyond shadow length {}", bytes.len(), self.cache.len()));
        }
        if bytes.is_empty() {
            return Ok(());
        }
        self.cache[off..end].copy_from_slice(bytes);
        for page in off / PAGE_SIZE..=(end - 1) / PAGE_SIZE {
            let ps = page * PAGE_SIZE;
            let pe = (ps + PAGE_SIZE).min(self.cache.len());
            let v = self.cache[ps..pe].to_vec();
            let vs = self.dirty.entry(page).or_default();
            if vs.len() >= MAX_VERSIONS {
                // keep the oldest two and the most recent ones
                vs.remove(2);
            }
            vs.push(v);
        }
        Ok(())
    }

    fn sync(&mut self) {
        for (&page, _) in &self.dirty {
            let ps = page * PAGE_SIZE;
            let pe = (ps + PAGE_SIZE).min(self.cache.len());
            self.durable[ps..pe].copy_from_slice(&self.cache[ps..pe]);
        }
        self.dirty.clear();
    }

    fn punch(&mut self, off: usize, len: usize) {
        let end = (off + len).min(self.cache.len());
        if off >= end {
            return;
        }
        self.cache[off..end].fill(0);
        self.durable[off..end].fill(0);
        let first = off.div_ceil(PAGE_SIZE);
        let last = end / PAGE_SIZE;
        for p in first..last {
            self.dirty.remove(&p);
        }
    }
}

#[derive(Default, Clone)]
pub struct Shadow {
    pub data: FileShadow,
    pub regions: FileShadow,
}

/// Which version of each dirty page reached the disk.
#[derive(Debug, Clone, PartialEq)]
pub enum ImageKind {
    /// Only the library's own syncs reached the disk.
    Strict,
    /// Every dirty page at its latest version.
    AllLatest,
    /// Every dirty page of the data file latest, regions file durable.
    DataOnly,
    /// Every dirty page of the regions file latest, data file durable.
    RegionsOnly,
    /// Exactly one dirty page (file, page, version index) written back.
    Single(FileId, usize, usize),
    /// Everything latest except one page kept at its durable version.
    AllBut(FileId, usize),
    /// Random per-page choice (seeded).
    Random(u64),
}

impl Shadow {
    pub fn apply(&mut self, ev: &DEv) -> Result<(), String> {
        match ev {
            DEv::Write { file, off, bytes } => self.file_mut(*file).write(*off, bytes),
            DEv::SetLen { file, len } => {
                self.file_mut(*file).set_len(*len);
                Ok(())
            }
            DEv::Sync { file } => {
                self.file_mut(*file).sync();
                Ok(())
            }
            DEv::Punch { off, len } => {
                self.data.punch(*off, *len);
                Ok(())
            }
        }
    }

    fn file_mut(&mut self, f: FileId) -> &mut FileShadow {
        match f {
            FileId::Data => &mut self.data,
            FileId::Regions => &mut self.regions,
        }
    }

    fn file(&self, f: FileId) -> &FileShadow {
        match f {
            FileId::Data => &self.data,
            FileId::Regions => &self.regions,
        }
    }

    pub fn dirty_pages(&self) -> usize {
        self.data.dirty.len() + self.regions.dirty.len()
    }

    /// Enumerates the images to try at the current boundary.
    pub fn image_kinds(&self, rng: &mut Rng, max_single: usize, n_random: usize) -> Vec<ImageKind> {
        let mut out = vec![ImageKind::Strict];
        let nd = self.dirty_pages();
        if nd == 0 {
            return out;
        }
        out.push(ImageKind::AllLatest);
        if !self.data.dirty.is_empty() && !self.regions.dirty.is_empty() {
            out.push(ImageKind::DataOnly);
            out.push(ImageKind::RegionsOnly);
        }
        let mut singles = vec![];
        for f in [FileId::Regions, FileId::Data] {
            for (&p, vs) in &self.file(f).dirty {
                for vi in 0..vs.len() {
                    singles.push(ImageKind::Single(f, p, vi));
                }
                if nd > 1 {
                    singles.push(ImageKind::AllBut(f, p));
                }
            }
        }
        if singles.len() > max_single {
            rng.shuffle(&mut singles);
            singles.truncate(max_single);
        }
        out.extend(singles);
        if nd > 1 {
            for _ in 0..n_random {
                out.push(ImageKind::Random(rng.next_u64()));
            }
        }
        out
    }

    /// Builds the two file images for `kind`.
    pub fn materialize(&self, kind: &ImageKind) -> (Vec<u8>, Vec<u8>) {
        let mut data = self.data.durable.clone();
        let mut regions = self.regions.durable.clone();
        let put = |dst: &mut Vec<u8>, page: usize, v: &[u8]| {
            let ps = page * PAGE_SIZE;
            dst[ps..ps + v.len()].copy_from_slice(v);
        };
        match kind {
            ImageKind::Strict => {}
            ImageKind::AllLatest => {
                for (&p, vs) in &self.data.dirty {
                    put(&mut data, p, vs.last().unwrap());
                }
                for (&p, vs) in &self.regions.dirty {
                    put(&mut regions, p, vs.last().unwrap());
                }
            }
            ImageKind::DataOnly => {
                for (&p, vs) in &self.data.dirty {
                    put(&mut data, p, vs.last().unwrap());
                }
            }
            ImageKind::RegionsOnly => {
                for (&p, vs) in &self.regions.dirty {
                    put(&mut regions, p, vs.last().unwrap());
                }
            }
            ImageKind::Single(f, p, vi) => {
                let v = &self.file(*f).dirty[p][*vi];
                match f {
                    FileId::Data => put(&mut data, *p, v),
                    FileId::Regions => put(&mut regions, *p, v),
                }
            }
            ImageKind::AllBut(f, skip) => {
                for (&p, vs) in &self.data.dirty {
                    if !(*f == FileId::Data && p == *skip) {
                        put(&mut data, p, vs.last().unwrap());
                    }
                }
                for (&p, vs) in &self.regions.dirty {
                    if !(*f == FileId::Regions && p == *skip) {
                        put(&mut regions, p, vs.last().unwrap());
                    }
                }
            }
            ImageKind::Random(seed) => {
                let mut r = Rng::new(*seed);
                for (&p, vs) in &self.data.dirty {
                    let c = r.below(vs.len() + 1);
                    if c > 0 {
                        put(&mut data, p, &vs[c - 1]);
                    }
                }
                for (&p, vs) in &self.regions.dirty {
                    let c = r.below(vs.len() + 1);
                    if c > 0 {
                        put(&mut regions, p, &vs[c - 1]);
                    }
                }
            }
        }
        (data, regions)
    }
}

fn write_sparse(path: &Path, bytes: &[u8]) -> std::io::Result<()> {
    let f = OpenOptions::new().create(true).write(true).truncate(true).open(path)?;
    f.set_len(bytes.len() as u64)?;
    let mut off = 0;
    while off < bytes.len() {
        let end = (off + PAGE_SIZE).min(bytes.len());
        let page = &bytes[off..end];
        if page.iter().any(|&b| b != 0) {
            // extend the run of non-zero pages
            let mut run_end = end;
            while run_end < bytes.len() {
                let e2 = (run_end + PAGE_SIZE).min(bytes.len());
                if bytes[run_end..e2].iter().any(|&b| b != 0) {
                    run_end = e2;
                } else {
                    break;
                }
            }
            f.write_all_at(&bytes[off..run_end], off as u64)?;
            off = run_end;
        } else {
            off = end;
        }
    }
    Ok(())
}

/// Writes an image into `dir` (replacing what is there).
pub fn write_image(dir: &Path, data: &[u8], regions: &[u8]) -> std::io::Result<()> {
    fs::create_dir_all(dir)?;
    write_sparse(&dir.join("data"), data)?;
    write_sparse(&dir.join("regions"), regions)?;
    Ok(())
}

/// Durable metadata view: parses the slots of a regions-file image with the real decoder.
pub fn parse_slots(regions_image: &[u8]) -> Vec<(usize, usize, usize, String)> {
    let mut out = vec![];
    for chunk in regions_image.chunks(PAGE_SIZE) {
        if chunk.len() != PAGE_SIZE {
            continue;
        }
        if let Ok(meta) = rawdb::RegionMetadata::from_bytes(chunk) {
            out.push((meta.start(), meta.len(), meta.reserved(), meta.id().to_string()));
        }
    }
    out
}
