//! E-FAULT (C16): single-file faults on the change directory. Runs after a commit/rollback
//! history has left the vector in a committed state with at least one retained record.

use std::fs;

use serde_json::json;

use crate::{
    common::Rng,
    vecmodel::{Elem, VMismatch, VOp, VOutcome, VecExec, VecLike},
};

/// Byte offsets of the length fields of a change record (name, offset, true value).
pub fn record_fields(bytes: &[u8], size: usize, raw: bool) -> Option<Vec<(&'static str, usize, u64)>> {
    let rd = |at: usize| -> Option<u64> { bytes.get(at..at + 8).map(|b| u64::from_le_bytes(b.try_into().unwrap())) };
    let mut out = vec![];
    let mut pos = 8; // stamp
    let prev_stored = rd(pos)?;
    out.push(("prev_stored_len", pos, prev_stored));
    pos += 8;
    out.push(("stored_len", pos, rd(pos)?));
    pos += 8;
    let truncated = rd(pos)?;
    out.push(("truncated", pos, truncated));
    pos += 8 + truncated as usize * size;
    let prev_pushed = rd(pos)?;
    out.push(("prev_pushed_len", pos, prev_pushed));
    pos += 8 + prev_pushed as usize * size;
    let pushed = rd(pos)?;
    out.push(("pushed_len", pos, pushed));
    pos += 8 + pushed as usize * size;
    if raw {
        let modified = rd(pos)?;
        out.push(("modified_len", pos, modified));
        for k in 0..modified as usize {
            out.push(("modified_index", pos + 8 + k * 8, rd(pos + 8 + k * 8)?));
        }
        pos += 8 + modified as usize * (8 + size);
        let holes = rd(pos)?;
        out.push(("prev_holes_len", pos, holes));
        pos += 8 + holes as usize * 8;
    }
    if pos != bytes.len() {
        return None;
    }
    Some(out)
}

pub struct FaultStats {
    pub faults: u64,
    pub by_kind: std::collections::BTreeMap<String, u64>,
    pub error_kinds: std::collections::BTreeMap<String, u64>,
    pub sample: Option<serde_json::Value>,
}

/// Injects every fault into the record of the vector's current stamp and calls `rollback()`;
/// then damages an older record and calls `rollback_before(0)`.
pub fn fault_phase<V: VecLike>(ex: &mut VecExec<V>, rng: &mut Rng, exhaustive_trunc_limit: usize) -> Result<FaultStats, VMismatch> {
    let mut st = FaultStats { faults: 0, by_kind: Default::default(), error_kinds: Default::default(), sample: None };
    if ex.model.undo_depth() == 0 || !ex.last_op_committed {
        return Ok(st);
    }
    let size = size_of::<V::E>();
    let stamp = ex.model.cur.stamp;
    let dir = ex.v().v_changes_dir();
    let path = dir.join(stamp.to_string());
    let Ok(orig) = fs::read(&path) else {
        return Err(VMismatch { sig: "fault|record-missing".into(), what: format!("the model expects a change record for stamp {stamp} but {} does not exist", path.display()) });
    };
    let raw_record = V::FORMAT.contains("Bytes") || V::FORMAT.contains("ZeroCopy");
    let Some(fields) = record_fields(&orig, size, raw_record) else {
        return Err(VMismatch { sig: "fault|record-layout".into(), what: format!("change record for stamp {stamp} ({} bytes) does not have the documented layout", orig.len()) });
    };

    // list of faults: (kind, label, damaged bytes or None = delete)
    let mut faults: Vec<(String, String, Option<Vec<u8>>)> = vec![("delete".into(), "deleted".into(), None)];
    let n = orig.len();
    let mut cuts: Vec<usize> = if n <= exhaustive_trunc_limit {
        (0..n).collect()
    } else {
        let mut c: Vec<usize> = (0..200.min(n)).collect();
        c.extend((n.saturating_sub(64))..n);
        for (_, off, _) in &fields {
            for d in 0..=9 {
                if off + d < n {
                    c.push(off + d);
                }
            }
        }
        for _ in 0..64 {
            c.push(rng.below(n));
        }
        c.sort();
        c.dedup();
        c
    };
    cuts.retain(|&c| c < n);
    for c in cuts {
        faults.push(("truncate".into(), format!("truncated to {c} of {n} bytes"), Some(orig[..c].to_vec())));
    }
    for (name, off, val) in &fields {
        // out-of-range values for every length field; `true + 1` only for the three fields that
        // describe the truncation (they are redundant, so any change is detectable) - a count
        // changed by one elsewhere yields another well-formed record that nothing can tell apart
        let linked = matches!(*name, "prev_stored_len" | "stored_len" | "truncated");
        if *name == "modified_index" {
            // a slot index at / beyond the length the rollback restores is out of range
            let restored_len = fields.iter().find(|f| f.0 == "prev_stored_len").map(|f| f.2).unwrap_or(0) + fields.iter().find(|f| f.0 == "prev_pushed_len").map(|f| f.2).unwrap_or(0);
            for bad in [restored_len, restored_len + 1, 1u64 << 40, u64::MAX] {
                let mut b = orig.clone();
                b[*off..*off + 8].copy_from_slice(&bad.to_le_bytes());
                faults.push(("field:modified_index".into(), format!("modified slot index {val} -> {bad} (restored length {restored_len})"), Some(b)));
            }
            continue;
        }
        for bad in [val.wrapping_add(1), 1u64 << 32, 1u64 << 40, 1u64 << 63, u64::MAX] {
            if bad == *val || (bad == val.wrapping_add(1) && !linked) {
                continue;
            }
            let mut b = orig.clone();
            b[*off..*off + 8].copy_from_slice(&bad.to_le_bytes());
            faults.push((format!("field:{name}"), format!("{name} {val} -> {bad}"), Some(b)));
        }
    }

    let restore = |p: &std::path::Path| fs::write(p, &orig).expect("restore change record");
    for (kind, label, damaged) in faults {
        match &damaged {
            None => fs::remove_file(&path).expect("remove record"),
            Some(b) => fs::write(&path, b).expect("write damaged record"),
        }
        st.faults += 1;
        *st.by_kind.entry(kind.clone()).or_insert(0) += 1;
        let mut before = ex.full_snapshot();
        before.remove(&format!("change:{stamp}"));
        let r = crate::common::catch(|| ex.vm().v_rollback());
        let mut after = ex.full_snapshot();
        after.remove(&format!("change:{stamp}"));
        match r {
            Err(p) => {
                restore(&path);
                return Err(VMismatch { sig: format!("fault|{kind}|panic|{}", crate::common::normalize_msg(&p)), what: format!("rollback() panicked on a change record that was {label}: {p}") });
            }
            Ok(Err(e)) => {
                *st.error_kinds.entry(crate::common::normalize_msg(&e.to_string()).chars().take(40).collect()).or_insert(0) += 1;
                if after != before {
                    restore(&path);
                    let diff: Vec<&String> = after.iter().filter(|(k, v)| before.get(*k) != Some(v)).map(|(k, _)| k).collect();
                    return Err(VMismatch { sig: format!("fault|{kind}|failed-rollback-changed-state"), what: format!("rollback() failed ({e}) on a record that was {label}, but the vector changed: {diff:?}") });
                }
                if let Err(m) = ex.compare("failed rollback") {
                    restore(&path);
                    return Err(VMismatch { sig: format!("fault|{kind}|{}", m.sig), what: format!("after a failed rollback (record {label}): {}", m.what) });
                }
            }
            Ok(Ok(())) => {
                // accepted: only legitimate if the result is exactly the previous committed state
                restore(&path);
                let mut m2 = ex.model.clone();
                let _ = m2.apply(&VOp::Rollback);
                let saved = std::mem::replace(&mut ex.model, m2);
                let cmp = ex.compare("rollback");
                if let Err(m) = cmp {
                    ex.model = saved;
                    return Err(VMismatch { sig: format!("fault|{kind}|damaged-record-applied"), what: format!("rollback() succeeded on a change record that was {label} and produced a state that was never committed ({})", m.what) });
                }
                if st.sample.is_none() {
                    st.sample = Some(json!({"fault": label, "outcome": "accepted, result equals the previous committed state"}));
                }
                *st.by_kind.entry(format!("{kind}:accepted-harmless")).or_insert(0) += 1;
                ex.last_op_committed = true;
                return Ok(st); // the vector moved on; the caller continues the history from here
            }
        }
    }
    restore(&path);
    if st.sample.is_none() {
        st.sample = Some(json!({"record_bytes": n, "fields": fields.iter().map(|(n, o, v)| json!([n, o, v])).collect::<Vec<_>>()}));
    }

    // rollback_before across a damaged older record: must stop on the committed state it reached
    if ex.model.undo_depth() >= 2 {
        let pos = ex.model.chain.len() - 1;
        let depth = ex.model.undo_depth();
        let k = 1 + rng.below(depth - 1); // damage the record k levels below the top
        let victim_state = ex.model.chain[pos - k].clone();
        let vpath = dir.join(victim_state.stamp.to_string());
        if let Ok(vorig) = fs::read(&vpath) {
            let cut = if vorig.len() > 9 { rng.range(8, vorig.len() - 1) } else { 0 };
            // the older record is truncated or deleted; the target is below everything or exactly
            // the stamp whose record is unusable (the walk then ends *at* the gap)
            // A deleted *oldest* retained record is indistinguishable from a shorter retention
            // window (rollback_before then stops there and returns the stamp it reached, as it
            // does at the end of the window): deletion is only injected where an older record
            // exists below the gap, which is what makes the gap recognisable.
            let older_exists = k + 1 < depth && dir.join(ex.model.chain[pos - k - 1].stamp.to_string()).exists();
            let (how, target) = match rng.below(8) {
                0..=3 if older_exists => ("deleted", victim_state.stamp),
                4 | 5 if older_exists => ("deleted", 0),
                1 | 3 | 5 | 6 => ("truncated", victim_state.stamp),
                _ => ("truncated", 0),
            };
            if how == "truncated" {
                fs::write(&vpath, &vorig[..cut]).expect("damage older record");
            } else {
                fs::remove_file(&vpath).expect("delete older record");
            }
            st.faults += 1;
            *st.by_kind.entry(format!("rollback_before:older-record-{how}:target={}", if target == 0 { "below-all" } else { "the-gap" })).or_insert(0) += 1;
            let r = crate::common::catch(|| ex.vm().v_rollback_before(target));
            fs::write(&vpath, &vorig).expect("restore older record");
            match r {
                Err(p) => return Err(VMismatch { sig: format!("fault|rollback_before|panic|{}", crate::common::normalize_msg(&p)), what: format!("rollback_before panicked on a {how} record: {p}") }),
                Ok(Ok(s)) => return Err(VMismatch { sig: format!("fault|rollback_before|{how}-record-not-refused"), what: format!("rollback_before({target}) returned Ok({s}) although the record of stamp {} was {how}", victim_state.stamp) }),
                Ok(Err(_)) => {
                    for _ in 0..k {
                        let o = ex.model.apply(&VOp::Rollback);
                        debug_assert!(o == VOutcome::Ok);
                    }
                    if let Err(m) = ex.compare("failed rollback_before") {
                        return Err(VMismatch { sig: format!("fault|rollback_before|{}", m.sig), what: format!("after rollback_before failed on the truncated record of stamp {}: the vector is not at the committed state it had reached ({})", victim_state.stamp, m.what) });
                    }
                    ex.last_op_committed = true;
                }
            }
        }
    }
    let _ = <V::E as Elem>::NAME;
    Ok(st)
}
