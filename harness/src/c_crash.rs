//! C05 and the sequential half of C12: crash images at event boundaries, recovered with the
//! real `Database::open` and judged against the model snapshots taken at flush points.

use std::collections::{BTreeMap, BTreeSet};

use rawdb::{PAGE_SIZE, verif::FileId};
use serde_json::{Value, json};

use crate::{
    c_raw::{MIN_LENS, ops_json},
    common::{Counter, Ctx, Report, Rng, TempDir, Violation, catch, fnv, normalize_msg, run_shards},
    crash::{DEv, ImageKind, Recorder, Shadow, parse_slots, write_image},
    obs,
    rawmodel::{GenCfg, MRegion, ROp, RawExec, RawModel, check_layout, gen_op, open_db},
};

#[derive(Clone, Copy, PartialEq)]
pub enum Focus {
    /// C05: all crash points.
    All,
    /// C12: crash points inside compact(), punch checks.
    Compact,
}

pub struct CrashCfg {
    pub focus: Focus,
    /// examine 1 in `sample_outside` crash points that are not inside flush/compact
    pub sample_outside: u32,
    pub max_single: usize,
    pub n_random: usize,
}

#[derive(Default)]
pub struct CrashStats {
    pub stats: Counter,
    pub images: u64,
    pub distinct: BTreeSet<u64>,
    pub histories: u64,
    pub samples: Vec<Value>,
    pub max_dirty: usize,
}

struct Found {
    sig: String,
    what: String,
    detail: Value,
}

fn region_state(m: Option<&MRegion>) -> Option<&[u8]> {
    m.map(|r| &r.bytes[..])
}

/// Opens the image in `img_dir` and checks it. `snapshot` = model at the last returned flush
/// (None before the first one), `touched` = regions modified since, `inplace` = regions whose
/// flushed bytes were overwritten in place since, `pending` = model when the interrupted flush
/// began (Some only for crash points inside a flush-type operation).
#[allow(clippy::too_many_arguments)]
fn check_image(
    img_dir: &std::path::Path,
    kind: &ImageKind,
    snapshot: Option<&RawModel>,
    touched: &BTreeSet<String>,
    inplace: &BTreeSet<String>,
    pending: Option<&RawModel>,
    live_model: &RawModel,
    ctxs: &str,
) -> Result<(), (String, String)> {
    let strict = *kind == ImageKind::Strict;
    let kind_s = if strict { "strict" } else { "writeback" };
    let db = match rawdb::verif::mute(|| open_db(img_dir, 0)) {
        Ok(db) => db,
        Err(e) => {
            return Err((
                format!("{kind_s}|open-failed|{}|{ctxs}", normalize_msg(&e)),
                format!("crash image does not open: {e}"),
            ));
        }
    };
    let res = rawdb::verif::mute(|| -> Result<(), (String, String)> {
        // disjoint, inside the file (the walker checks the full partition of the rebuilt layout)
        let file_len = db.file_len();
        let mut extents: Vec<(usize, usize, String)> = vec![];
        {
            let regions = db.regions();
            for r in regions.index_to_region().iter().flatten() {
                let m = r.meta();
                if m.start() + m.reserved() > file_len {
                    return Err((
                        format!("{kind_s}|region-beyond-file|{ctxs}"),
                        format!("recovered region '{}' extent {}+{} exceeds file length {file_len}", m.id(), m.start(), m.reserved()),
                    ));
                }
                extents.push((m.start(), m.reserved(), m.id().to_string()));
            }
        }
        extents.sort();
        for w in extents.windows(2) {
            if w[0].0 + w[0].1 > w[1].0 {
                return Err((
                    format!("{kind_s}|overlap|{ctxs}"),
                    format!("recovered regions overlap: '{}' {}+{} and '{}' {}+{}", w[0].2, w[0].0, w[0].1, w[1].2, w[1].0, w[1].1),
                ));
            }
        }
        if let Err(e) = catch(|| check_layout(&db)).unwrap_or_else(|p| Err(format!("panic: {p}"))) {
            return Err((
                format!("{kind_s}|layout|{}|{ctxs}", normalize_msg(&e)),
                format!("recovered layout invalid: {e}"),
            ));
        }
        let Some(snap) = snapshot else {
            return Ok(());
        };
        let read = |name: &str| -> Option<Vec<u8>> {
            let r = db.get_region(name)?;
            let reader = r.create_reader();
            Some(reader.read_all().to_vec())
        };
        // untouched since the last returned flush: exactly the flushed name, length, bytes
        for (name, m) in &snap.regions {
            if touched.contains(name) {
                continue;
            }
            let got = read(name);
            match got {
                None => {
                    if m.must_survive {
                        return Err((
                            format!("{kind_s}|untouched-missing|{ctxs}"),
                            format!("region '{name}' (untouched since the last flush, len {}) is missing after recovery", m.bytes.len()),
                        ));
                    }
                }
                Some(b) => {
                    if b != m.bytes {
                        let at = b.iter().zip(&m.bytes).position(|(a, b)| a != b);
                        return Err((
                            format!("{kind_s}|untouched-differs|{ctxs}"),
                            format!("region '{name}' untouched since the last flush recovered with len {} (flushed {}), first difference at {:?}", b.len(), m.bytes.len(), at),
                        ));
                    }
                }
            }
        }
        if strict {
            let mut names: BTreeSet<String> = snap.regions.keys().cloned().collect();
            if let Some(p) = pending {
                names.extend(p.regions.keys().cloned());
            }
            names.extend(db.regions().id_to_index().keys().cloned());
            for name in names {
                if inplace.contains(&name) {
                    continue;
                }
                let got = read(&name);
                let a = snap.regions.get(&name);
                let b = pending.and_then(|p| p.regions.get(&name));
                let matches = |m: Option<&MRegion>| -> bool {
                    match (m, &got) {
                        (None, None) => true,
                        (Some(m), None) => !m.must_survive,
                        (Some(m), Some(g)) => &m.bytes == g,
                        (None, Some(_)) => false,
                    }
                };
                let ok = matches(a) || (pending.is_some() && matches(b));
                if !ok {
                    let class = match (&got, a, b) {
                        (Some(_), None, None) => "resurrected-or-unknown-region",
                        (Some(_), None, Some(_)) => "new-region-in-neither-state",
                        (None, _, _) => "region-missing",
                        _ => "neither-flushed-nor-pending-state",
                    };
                    let _ = live_model;
                    return Err((
                        format!("strict|{class}|{ctxs}"),
                        format!(
                            "strict image: region '{name}' recovered as {:?} bytes; at the last completed flush it was {:?} bytes, when the interrupted flush began {:?} bytes",
                            got.as_ref().map(|g| g.len()),
                            region_state(a).map(|x| x.len()),
                            region_state(b).map(|x| x.len())
                        ),
                    ));
                }
            }
        }
        Ok(())
    });
    drop(db);
    res
}

fn touched_by(op: &ROp, model_before: &RawModel) -> Vec<String> {
    match op {
        ROp::Create(n) | ROp::Remove(n) | ROp::RemoveIfExists(n) | ROp::RemoveWithHandle(n) => vec![n.clone()],
        ROp::Write { name, .. }
        | ROp::WriteAt { name, .. }
        | ROp::Truncate { name, .. }
        | ROp::TruncateWrite { name, .. }
        | ROp::BatchWrite { name, .. } => vec![name.clone()],
        ROp::Rename { name, to } => vec![name.clone(), to.clone()],
        ROp::Retain(keep) => model_before
            .regions
            .keys()
            .filter(|k| !keep.contains(k))
            .cloned()
            .collect(),
        ROp::RegionFlush(_) | ROp::Flush | ROp::Compact | ROp::Reopen => vec![],
    }
}

/// Does `op` overwrite, in place, bytes below the length the region had at the last flush?
fn overwrites_in_place(
    op: &ROp,
    model_before: &RawModel,
    snapshot: Option<&RawModel>,
    origin: &BTreeMap<String, String>,
) -> Option<String> {
    let flushed_len = |n: &String| {
        let n = origin.get(n).unwrap_or(n);
        snapshot.and_then(|s| s.regions.get(n)).map(|r| r.bytes.len()).unwrap_or(0)
    };
    match op {
        ROp::Write { name, .. } => {
            let cur = model_before.regions.get(name)?.bytes.len();
            (cur < flushed_len(name)).then(|| name.clone())
        }
        ROp::WriteAt { name, at, .. } | ROp::TruncateWrite { name, at, .. } => (*at < flushed_len(name)).then(|| name.clone()),
        ROp::BatchWrite { name, slots, .. } => slots.iter().any(|&s| s < flushed_len(name)).then(|| name.clone()),
        _ => None,
    }
}

fn is_flush_type(op: &ROp) -> bool {
    matches!(op, ROp::Flush | ROp::Compact | ROp::Reopen | ROp::RegionFlush(_))
}

#[allow(clippy::too_many_arguments)]
fn run_crash_history(
    rng: &mut Rng,
    gcfg: &GenCfg,
    ccfg: &CrashCfg,
    nops: usize,
    fixed_ops: Option<&[ROp]>,
    stats: &mut CrashStats,
    prop: &str,
) -> Option<Found> {
    let tmp = TempDir::new("crash-db");
    let img = TempDir::new("crash-img");
    let rec = Recorder::default();
    let min_len = if fixed_ops.is_some() { 0 } else { *rng.pick(&MIN_LENS[..4]) };
    obs::with_sink(rec.sink(), || {
        let mut shadow = Shadow::default();
        let mut ex = match RawExec::new(tmp.path(), min_len, 0) {
            Ok(e) => e,
            Err(_) => return None,
        };
        for ev in rec.drain() {
            let _ = shadow.apply(&ev);
        }
        let mut snapshot: Option<RawModel> = None;
        let mut touched: BTreeSet<String> = BTreeSet::new();
        let mut inplace: BTreeSet<String> = BTreeSet::new();
        // current name -> name at the last flush point (for regions renamed since)
        let mut origin: BTreeMap<String, String> = BTreeMap::new();
        let mut counter = 0usize;
        let mut ops: Vec<ROp> = vec![];
        let mut flushes = 0usize;
        let total_ops = fixed_ops.map(|f| f.len()).unwrap_or(nops);
        for i in 0..total_ops {
            let op = match fixed_ops {
                Some(f) => f[i].clone(),
                None => gen_op(rng, &ex.model, gcfg, &mut counter),
            };
            ops.push(op.clone());
            let before = ex.model.clone();
            for n in touched_by(&op, &before) {
                if let Some(o) = origin.get(&n) {
                    touched.insert(o.clone());
                }
                touched.insert(n);
            }
            if let Some(n) = overwrites_in_place(&op, &before, snapshot.as_ref(), &origin) {
                if let Some(o) = origin.get(&n) {
                    inplace.insert(o.clone());
                }
                inplace.insert(n);
            }
            if let ROp::Rename { name, to } = &op
                && before.regions.contains_key(name)
                && !before.regions.contains_key(to)
            {
                // keep track of the name the region had at the last flush point
                let o = origin.remove(name).unwrap_or_else(|| name.clone());
                if inplace.contains(name) || inplace.contains(&o) {
                    inplace.insert(to.clone());
                }
                origin.insert(to.clone(), o);
            }
            if let Err(m) = ex.step(&op) {
                // compact() must not alter any live region: a divergence right after it is C12's
                if matches!(op, ROp::Compact) && prop == "C12" {
                    return Some(Found {
                        sig: format!("compact-altered-state|{}", m.sig),
                        what: format!("compact() changed the observable state: {}", m.what),
                        detail: json!({"ops": crate::c_raw::ops_json(&ops), "mismatch": m.what}),
                    });
                }
                // a broken extent invariant or reuse rule in the live state is C02's business, but
                // what it does to the files after a crash is this property's: the byte model is
                // still in step (it was applied before the layout was walked), so carry on
                if m.sig.starts_with("layout|") || m.sig.starts_with("reuse|") {
                    stats.stats.bump("live_layout_mismatch_carried_on");
                } else {
                    // any other functional divergence is C01/C13's business; stop this history
                    stats.stats.bump("history_aborted_on_model_mismatch");
                    return None;
                }
            }
            let events = rec.drain();
            let flush_type = is_flush_type(&op);
            let in_compact = matches!(op, ROp::Compact);
            let saw_regions_sync = events.iter().any(|e| matches!(e, DEv::Sync { file: FileId::Regions }));
            let mut seen_data_sync = false;
            let pre_file_len = shadow.data.cache.len();
            for (k, ev) in events.iter().enumerate() {
                // C12: a punch must not touch the content of any region according to the
                // durable metadata, nor (checked after the op) the live one.
                if let DEv::Punch { off, len } = ev {
                    stats.stats.bump("punches");
                    let latest: Vec<u8> = shadow.regions.cache.clone();
                    for (view, img) in [("durable", &shadow.regions.durable), ("live", &latest)] {
                        for (start, rlen, reserved, id) in parse_slots(img) {
                            let content_end = start + rlen.div_ceil(PAGE_SIZE) * PAGE_SIZE;
                            if *off < content_end && start < off + len {
                                return Some(Found {
                                    sig: format!("punch-hits-content|view={view}"),
                                    what: format!("punch {off}+{len} intersects content {start}..{content_end} of region '{id}' (reserved {reserved}) per the {view} metadata"),
                                    detail: json!({"ops": ops_json(&ops), "event": k}),
                                });
                            }
                            if *off >= start && off + len <= start + reserved {
                                stats.stats.bump("punches_in_region_tail");
                            }
                        }
                    }
                }
                if let Err(e) = shadow.apply(ev) {
                    stats.stats.bump("shadow_error");
                    let _ = e;
                    return None;
                }
                stats.stats.bump(&format!("event:{}", ev.kind()));
                if matches!(ev, DEv::Sync { file: FileId::Data }) {
                    seen_data_sync = true;
                }
                let between_syncs = flush_type && seen_data_sync && !matches!(ev, DEv::Sync { file: FileId::Regions })
                    && events[k + 1..].iter().any(|e| matches!(e, DEv::Sync { file: FileId::Regions }));
                let examine = match ccfg.focus {
                    Focus::All => flush_type || rng.chance(1, ccfg.sample_outside),
                    Focus::Compact => in_compact,
                };
                if !examine {
                    continue;
                }
                stats.stats.bump("crash_points");
                if between_syncs {
                    stats.stats.bump("crash_points_between_syncs");
                }
                if in_compact {
                    stats.stats.bump("crash_points_inside_compact");
                }
                if matches!(op, ROp::Write { .. } | ROp::WriteAt { .. } | ROp::TruncateWrite { .. })
                    && events.iter().filter(|e| matches!(e, DEv::Write { file: FileId::Data, .. })).count() >= 2
                {
                    stats.stats.bump("crash_points_inside_relocation");
                }
                stats.max_dirty = stats.max_dirty.max(shadow.dirty_pages());
                let kinds = shadow.image_kinds(rng, ccfg.max_single, ccfg.n_random);
                for kind in kinds {
                    let (data, regions) = shadow.materialize(&kind);
                    if write_image(img.path(), &data, &regions).is_err() {
                        stats.stats.bump("image_write_failed");
                        continue;
                    }
                    stats.images += 1;
                    if kind == ImageKind::Strict {
                        stats.stats.bump("images_strict");
                    } else {
                        stats.stats.bump("images_writeback");
                    }
                    stats.distinct.insert(fnv(&[&fnv(&data).to_le_bytes()[..], &fnv(&regions).to_le_bytes()[..]].concat()));
                    let ctxs = format!(
                        "op={}{}",
                        op.kind(),
                        if flush_type && !saw_regions_sync { "(no-sync)" } else { "" }
                    );
                    let pending = if flush_type { Some(&ex.model) } else { None };
                    if let Err((sig, what)) = check_image(
                        img.path(),
                        &kind,
                        snapshot.as_ref(),
                        &touched,
                        &inplace,
                        pending,
                        &ex.model,
                        &ctxs,
                    ) {
                        let _ = prop;
                        return Some(Found {
                            sig,
                            what: what.clone(),
                            detail: json!({
                                "ops": ops_json(&ops),
                                "crash_after_event_of_last_op": k,
                                "event": ev.brief(),
                                "events_of_last_op": events.iter().map(|e| e.brief()).collect::<Vec<_>>(),
                                "image": format!("{kind:?}"),
                                "flushes_returned_before": flushes,
                                "touched_since_flush": touched.iter().collect::<Vec<_>>(),
                            }),
                        });
                    }
                    if stats.samples.len() < 2 && !matches!(kind, ImageKind::Strict) && i > 6 {
                        stats.samples.push(json!({
                            "history_prefix": ops_json(&ops[ops.len().saturating_sub(12)..]),
                            "crash_after_event": ev.brief(),
                            "image": format!("{kind:?}"),
                            "dirty_pages": shadow.dirty_pages(),
                            "verdict": "opens; regions disjoint and inside the file; untouched regions as flushed",
                        }));
                    }
                }
            }
            // C12: compact must not change the logical file length
            if in_compact {
                stats.stats.bump("compactions");
                if shadow.data.cache.len() != pre_file_len {
                    return Some(Found {
                        sig: "compact-changed-file-length".into(),
                        what: format!("compact changed the data file length {pre_file_len} -> {}", shadow.data.cache.len()),
                        detail: json!({"ops": ops_json(&ops)}),
                    });
                }
            }
            // a returned flush is a flush point; Region::flush only when it synced
            let returned_flush = match op {
                ROp::Flush | ROp::Compact | ROp::Reopen => true,
                ROp::RegionFlush(_) => saw_regions_sync,
                _ => false,
            };
            if returned_flush {
                flushes += 1;
                snapshot = Some(ex.model.clone());
                touched.clear();
                inplace.clear();
                origin.clear();
                stats.stats.bump("flush_points");
            }
        }
        ex.close();
        None
    })
}

/// Reserve-tail cases for compact(): the region's length sits at -1 / 0 / +1 of a page boundary
/// inside a larger reserve, with another region behind it.
pub fn directed_compact_tail_histories() -> Vec<Vec<ROp>> {
    let mut out = vec![];
    for len in [1usize, 2, 4095, 4096, 4097, 8191, 8192, 8193, 12289, 16385] {
        out.push(vec![
            ROp::Create("t".into()),
            ROp::Write { name: "t".into(), n: 20_000 },
            ROp::Create("behind".into()),
            ROp::Write { name: "behind".into(), n: 10 },
            ROp::Truncate { name: "t".into(), from: len },
            ROp::Flush,
            ROp::Compact,
            ROp::Write { name: "t".into(), n: 3 },
            ROp::Compact,
        ]);
    }
    out
}

pub fn directed_crash_histories() -> Vec<Vec<ROp>> {
    let w = |n: &str, k: usize| ROp::Write { name: n.into(), n: k };
    let c = |n: &str| ROp::Create(n.into());
    vec![
        // remove + flush with nothing dirty, then reuse of the freed extent
        vec![
            c("a"), w("a", 3000), c("b"), w("b", 100), ROp::Flush,
            ROp::Remove("a".into()), ROp::Flush,
            c("c"), w("c", 2000), ROp::Flush,
        ],
        // relocation, flush, reuse of the old extent
        vec![
            c("a"), w("a", 3000), c("b"), w("b", 100), ROp::Flush,
            w("a", 6000), ROp::Flush,
            c("c"), w("c", 2000), ROp::RegionFlush("c".into()),
            ROp::Compact,
        ],
        // extents freed on both sides of a region that then outgrows its reserve, all within one
        // flush epoch: the growth must not run over the extent freed behind it, whose release is
        // not durable yet
        vec![
            c("x"), w("x", 100), c("a"), w("a", 100), c("b"), w("b", 3000), ROp::Flush,
            ROp::Remove("x".into()), ROp::Remove("b".into()), w("a", 6000),
            ROp::Flush, c("n"), w("n", 3000), ROp::Flush,
        ],
        // the same with the front extent freed by a relocation instead of a removal
        vec![
            c("x"), w("x", 100), c("a"), w("a", 100), c("b"), w("b", 3000), c("z"), w("z", 10), ROp::Flush,
            w("x", 5000), ROp::Remove("z".into()), ROp::Remove("b".into()), w("a", 6000), w("a", 9000),
            ROp::Flush, c("n"), w("n", 3000), ROp::Flush,
        ],
        // partially used reserves, freed + coalesced extents, compact
        vec![
            c("a"), w("a", 5000), c("b"), w("b", 9000), c("d"), w("d", 10), ROp::Flush,
            ROp::Truncate { name: "b".into(), from: 100 }, ROp::Compact,
            ROp::Remove("a".into()), ROp::Compact,
            w("b", 4000), ROp::Remove("d".into()), ROp::Compact, ROp::Compact,
        ],
    ]
}

pub fn crash_campaign(ctx: &Ctx, report: &Report, gcfg: &GenCfg, ccfg: &CrashCfg, secs: f64, tag: u64) -> CrashStats {
    let mut total = CrashStats::default();
    let mut absorb = |total: &mut CrashStats, s: CrashStats, f: Option<Found>| {
        total.stats.merge(&s.stats);
        total.images += s.images;
        total.distinct.extend(s.distinct);
        total.histories += s.histories;
        total.max_dirty = total.max_dirty.max(s.max_dirty);
        for x in s.samples {
            if total.samples.len() < 3 {
                total.samples.push(x);
            }
        }
        if let Some(f) = f {
            report.violation(
                ctx,
                Violation { sig: format!("{}|{}", report.prop, f.sig), what: f.what, detail: f.detail },
            );
        }
    };
    let mut directed = directed_crash_histories();
    if matches!(ccfg.focus, Focus::Compact) {
        directed.extend(directed_compact_tail_histories());
    }
    for ops in directed {
        let mut s = CrashStats::default();
        let mut rng = Rng::derive(ctx.seed, &[tag, 999]);
        let thorough = CrashCfg { focus: ccfg.focus, sample_outside: 1, max_single: 64, n_random: 8 };
        let f = run_crash_history(&mut rng, gcfg, &thorough, 0, Some(&ops), &mut s, &report.prop);
        s.histories = 1;
        absorb(&mut total, s, f);
    }
    let deadline = ctx.elapsed() + secs;
    let results = run_shards(ctx.threads, |shard| {
        let mut s = CrashStats::default();
        let mut found = vec![];
        let mut h = 0u64;
        while ctx.elapsed() < deadline {
            let mut rng = Rng::derive(ctx.seed, &[tag, shard as u64, h]);
            let nops = rng.range(10, 60);
            let mut g = gcfg.clone();
            g.max_regions = rng.range(2, 7);
            if let Some(f) = run_crash_history(&mut rng, &g, ccfg, nops, None, &mut s, &report.prop) {
                found.push(f);
                if found.len() > 3 {
                    break;
                }
            }
            s.histories += 1;
            h += 1;
        }
        (s, found)
    });
    for (s, found) in results {
        let mut first = true;
        let mut s = Some(s);
        for f in found {
            if first {
                absorb(&mut total, s.take().unwrap(), Some(f));
                first = false;
            } else {
                absorb(&mut total, CrashStats::default(), Some(f));
            }
        }
        if let Some(s) = s {
            absorb(&mut total, s, None);
        }
    }
    total
}

fn events_json(c: &Counter) -> Value {
    Value::Object(
        c.0.iter()
            .filter(|(k, _)| k.starts_with("event:"))
            .map(|(k, v)| (k[6..].to_string(), json!(v)))
            .collect(),
    )
}

const ASSUMPTIONS: [&str; 5] = [
    "4 KiB page writes are atomic",
    "file-length changes are durable in order",
    "fdatasync persists every dirty page of that file",
    "a hole punch is immediately effective",
    "msync(MS_ASYNC) guarantees nothing",
];

pub fn check_c05(ctx: &Ctx) -> i32 {
    let report = Report::new("C05");
    let gcfg = GenCfg { max_write: 30_000, allow_reopen: true, churn: true, ..GenCfg::default() };
    let ccfg = CrashCfg {
        focus: Focus::All,
        sample_outside: ctx.pick(3, 1),
        max_single: ctx.pick(10, 40),
        n_random: ctx.pick(2, 6),
    };
    let s = crash_campaign(ctx, &report, &gcfg, &ccfg, ctx.secs(35.0, 420.0), 5);
    if s.stats.get("event:Sync(regions)") == 0 || s.stats.get("event:MmapWrite(data)") == 0 {
        report.harness_error("no durable-image events were observed (hooks not reached)");
    }
    for k in ["crash_points_between_syncs", "crash_points_inside_relocation", "crash_points_inside_compact"] {
        if s.stats.get(k) == 0 {
            report.inconclusive(format!("required bin not reached: {k}"));
        }
    }
    let coverage = json!({
        "evaluations": s.images,
        "distinct_nontrivial": s.distinct.len(),
        "rule": "one evaluation = one crash image (data + regions file) materialised at an event boundary and opened with the real Database::open; strict = only the library's own syncs reached the disk, writeback = a per-page choice among the versions written since the last sync (all-latest, one file only, every single dirty page/version alone, all-but-one, random subsets); distinct = hash of the two file images; every image counted has been opened and judged",
        "samples": s.samples,
        "histories": s.histories,
        "events_by_kind": events_json(&s.stats),
        "crash_points": {
            "total": s.stats.get("crash_points"),
            "inside_flush_between_syncs": s.stats.get("crash_points_between_syncs"),
            "inside_relocation": s.stats.get("crash_points_inside_relocation"),
            "inside_compact": s.stats.get("crash_points_inside_compact"),
        },
        "images": {"strict": s.stats.get("images_strict"), "writeback": s.stats.get("images_writeback")},
        "flush_points": s.stats.get("flush_points"),
        "max_dirty_pages": s.max_dirty,
        "histories_aborted_on_model_mismatch": s.stats.get("history_aborted_on_model_mismatch"),
    });
    report.finish(ctx, "fault_enumeration", coverage, &ASSUMPTIONS)
}

pub fn c12_sequential(ctx: &Ctx, report: &Report, secs: f64) -> CrashStats {
    let gcfg = GenCfg { max_write: 40_000, allow_reopen: false, churn: true, compact_heavy: true, ..GenCfg::default() };
    let ccfg = CrashCfg {
        focus: Focus::Compact,
        sample_outside: 1,
        max_single: ctx.pick(12, 40),
        n_random: ctx.pick(2, 6),
    };
    // compact-heavy generation is obtained through the churn config plus directed histories
    crash_campaign(ctx, report, &gcfg, &ccfg, secs, 12)
}

#[allow(dead_code)]
pub fn unused(_: &BTreeMap<u8, u8>) {}

pub fn check_c12(ctx: &Ctx) -> i32 {
    let report = Report::new("C12");
    let s = c12_sequential(ctx, &report, ctx.secs(25.0, 240.0));
    // the "whatever other threads are writing meanwhile" clause: a writer appending into its
    // region's reserve against compact(), every interleaving up to the pre-emption bound
    let conc = crate::c_sched::check_c12_concurrent(ctx, &report, ctx.secs(15.0, 150.0));
    if s.stats.get("punches") == 0 {
        report.inconclusive("no hole punch was observed (file system refused PUNCH_HOLE or nothing was punchable)");
    }
    if s.stats.get("crash_points_inside_compact") == 0 {
        report.inconclusive("required bin not reached: crash points inside compact");
    }
    let coverage = json!({
        "evaluations": s.images,
        "distinct_nontrivial": s.distinct.len(),
        "rule": "one evaluation = one crash image taken at an event boundary inside compact() (flush syncs, each punch, final sync) opened with the real Database::open and judged as in C05; in addition every Punch event is checked online against the page-rounded content of every region per the durable and the live metadata, every compact() is followed by a full model comparison + layout walk, and the data file length must not change; distinct = hash of the two file images",
        "samples": s.samples,
        "histories": s.histories,
        "compactions": s.stats.get("compactions"),
        "punches_observed": s.stats.get("punches"),
        "punches_inside_a_region_reserve_tail": s.stats.get("punches_in_region_tail"),
        "crash_points_inside_compact": s.stats.get("crash_points_inside_compact"),
        "images": {"strict": s.stats.get("images_strict"), "writeback": s.stats.get("images_writeback")},
        "events_by_kind": events_json(&s.stats),
        "max_dirty_pages": s.max_dirty,
        "histories_aborted_on_model_mismatch": s.stats.get("history_aborted_on_model_mismatch"),
        "concurrent_writer_vs_compact": conc,
    });
    report.finish(ctx, "fault_enumeration", coverage, &ASSUMPTIONS)
}
