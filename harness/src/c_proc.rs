//! C18 (E-PROC): at most one open Database per directory, across threads and processes.
//! The harness re-executes itself as command-server children; the parent drives a totally
//! ordered history of open / hold / drop commands over the children and itself and checks every
//! reply against a holder-set model, comparing the files byte for byte around refused opens.

use std::{
    collections::{BTreeMap, BTreeSet},
    io::{BufRead, BufReader, Write},
    path::{Path, PathBuf},
    process::{Child, ChildStdin, ChildStdout, Command, Stdio},
    sync::{
        Arc, Barrier,
        atomic::{AtomicI64, AtomicU64, Ordering},
    },
    time::Duration,
};

use rawdb::{Database, Reader};
use serde_json::{Value, json};

use crate::common::{Counter, Ctx, Report, Rng, TempDir, Violation, catch, fnv, normalize_msg};

/// CLOCK_MONOTONIC in nanoseconds: one clock for all processes of the machine.
fn mono_ns() -> u64 {
    let mut ts = libc::timespec { tv_sec: 0, tv_nsec: 0 };
    unsafe { libc::clock_gettime(libc::CLOCK_MONOTONIC, &mut ts) };
    ts.tv_sec as u64 * 1_000_000_000 + ts.tv_nsec as u64
}
static TASK_END: AtomicU64 = AtomicU64::new(0);
static DROP_DONE: AtomicU64 = AtomicU64::new(0);

enum Holder {
    Db(Database),
    Reader(Reader),
}

#[derive(Default)]
pub struct Participant {
    holders: BTreeMap<String, Holder>,
}

fn pattern(seed: u64, n: usize) -> Vec<u8> {
    (0..n).map(|i| (crate::common::mix64(seed, i as u64 / 8) >> ((i % 8) * 8)) as u8).collect()
}

fn digest(db: &Database) -> String {
    let mut names: Vec<String> = db.regions().id_to_index().keys().cloned().collect();
    names.sort();
    let mut acc = String::new();
    for n in names {
        if let Some(r) = db.get_region(&n) {
            let len = r.meta().len();
            if len == 0 {
                continue; // a region that never held data may or may not survive a reopen
            }
            let h = fnv(r.create_reader().read_all());
            acc.push_str(&format!("{n}:{len}:{h:x};"));
        }
    }
    format!("{:x}", fnv(acc.as_bytes()))
}

impl Participant {
    fn db(&self, id: &str) -> Option<Database> {
        match self.holders.get(id) {
            Some(Holder::Db(d)) => Some(d.clone()),
            _ => None,
        }
    }

    /// Executes one command line; the reply is a single line.
    pub fn exec(&mut self, line: &str) -> String {
        let t: Vec<&str> = line.split_whitespace().collect();
        let r = catch(|| -> Result<String, String> {
            match t.as_slice() {
                ["OPEN", id, dir, min_len] => {
                    let min: usize = min_len.parse().unwrap_or(0);
                    let res = if min == 0 { Database::open(Path::new(dir)) } else { Database::open_with_min_len(Path::new(dir), min) };
                    match res {
                        Ok(db) => {
                            let fl = db.file_len();
                            self.holders.insert(id.to_string(), Holder::Db(db));
                            Ok(format!("OK {fl}"))
                        }
                        Err(e) => Ok(format!("ERR {}", match e {
                            rawdb::Error::TryLock(_) => "lock".to_string(),
                            other => format!("other:{}", normalize_msg(&other.to_string())),
                        })),
                    }
                }
                ["INIT", from] => {
                    // the regions later commands refer to exist from the start, so that no command
                    // issued while a reader is held has to allocate (documented misuse)
                    let db = self.db(from).ok_or("no such db")?;
                    for n in ["r0", "r1", "r2"] {
                        db.create_region_if_needed(n).map_err(|e| e.to_string())?;
                    }
                    Ok("OK".into())
                }
                ["CLONE", id, from] => {
                    let db = self.db(from).ok_or("no such db")?;
                    self.holders.insert(id.to_string(), Holder::Db(db));
                    Ok("OK".into())
                }
                ["REGIONDB", id, from, name] => {
                    let db = self.db(from).ok_or("no such db")?;
                    let region = db.get_region(name).ok_or("no such region")?;
                    let derived = region.db();
                    drop(region);
                    drop(db);
                    self.holders.insert(id.to_string(), Holder::Db(derived));
                    Ok("OK".into())
                }
                ["READER", id, from, name] => {
                    let db = self.db(from).ok_or("no such db")?;
                    let region = db.get_region(name).ok_or("no such region")?;
                    let reader = region.create_reader();
                    self.holders.insert(id.to_string(), Holder::Reader(reader));
                    Ok("OK".into())
                }
                ["BG", from, ms] => {
                    let db = self.db(from).ok_or("no such db")?;
                    let ms: u64 = ms.parse().unwrap_or(10);
                    db.run_bg(move |d| {
                        d.bg_sleep(Duration::from_millis(ms));
                        Ok(())
                    });
                    Ok("OK".into())
                }
                ["BGHOLD", from, ms] => {
                    // a background task that is busy for `ms` (not a bg_sleep, which the holder's
                    // drop wakes up) and records when it ended; it does not touch the database
                    let db = self.db(from).ok_or("no such db")?;
                    let ms: u64 = ms.parse().unwrap_or(10);
                    db.run_bg(move |_| {
                        std::thread::sleep(Duration::from_millis(ms));
                        TASK_END.store(mono_ns(), Ordering::SeqCst);
                        Ok(())
                    });
                    Ok("OK".into())
                }
                ["TASKEND"] => Ok(format!("OK {}", TASK_END.load(Ordering::SeqCst))),
                ["DROPASYNC", id] => {
                    // the drop (which joins background tasks) runs on a helper thread
                    match self.holders.remove(*id) {
                        Some(Holder::Db(d)) => {
                            std::thread::spawn(move || {
                                drop(d);
                                DROP_DONE.store(mono_ns(), Ordering::SeqCst);
                            });
                            Ok("OK".into())
                        }
                        _ => Err("no such db".into()),
                    }
                }
                ["DROPDONE"] => Ok(format!("OK {}", DROP_DONE.load(Ordering::SeqCst))),
                ["OPENAT", id, dir] => match Database::open(Path::new(dir)) {
                    Ok(db) => {
                        let t = mono_ns();
                        self.holders.insert(id.to_string(), Holder::Db(db));
                        Ok(format!("OK {t}"))
                    }
                    Err(rawdb::Error::TryLock(_)) => Ok("ERR lock".into()),
                    Err(e) => Ok(format!("ERR other:{}", normalize_msg(&e.to_string()))),
                },
                ["WRITE", from, name, n, seed] => {
                    let db = self.db(from).ok_or("no such db")?;
                    let region = db.get_region(name).ok_or("no such region")?;
                    let bytes = pattern(seed.parse().unwrap_or(1), n.parse().unwrap_or(1));
                    region.truncate_write(0, &bytes).map_err(|e| e.to_string())?;
                    Ok("OK".into())
                }
                ["FLUSH", from] => {
                    let db = self.db(from).ok_or("no such db")?;
                    db.flush().map_err(|e| e.to_string())?;
                    Ok(format!("OK {}", digest(&db)))
                }
                ["DIGEST", from] => {
                    let db = self.db(from).ok_or("no such db")?;
                    Ok(format!("OK {}", digest(&db)))
                }
                ["DROP", id] => {
                    // dropping the last handle joins background tasks (synchronously)
                    self.holders.remove(*id);
                    Ok("OK".into())
                }
                ["PING"] => Ok("OK".into()),
                _ => Err(format!("bad command: {line}")),
            }
        });
        match r {
            Ok(Ok(s)) => s,
            Ok(Err(e)) => format!("FAIL {e}"),
            Err(p) => format!("PANIC {p}"),
        }
    }
}

/// Entry point of a command-server child.
pub fn child_main() -> i32 {
    let stdin = std::io::stdin();
    let mut out = std::io::stdout();
    let mut p = Participant::default();
    for line in stdin.lock().lines() {
        let Ok(line) = line else { break };
        if line.trim() == "EXIT" {
            break;
        }
        let reply = p.exec(&line);
        let _ = writeln!(out, "{reply}");
        let _ = out.flush();
    }
    0
}

struct Remote {
    child: Child,
    stdin: ChildStdin,
    replies: std::sync::mpsc::Receiver<String>,
}

impl Remote {
    fn spawn() -> std::io::Result<Self> {
        let exe = std::env::current_exe()?;
        let mut child = Command::new(exe).arg("proc-child").stdin(Stdio::piped()).stdout(Stdio::piped()).stderr(Stdio::null()).spawn()?;
        let stdin = child.stdin.take().unwrap();
        let stdout: ChildStdout = child.stdout.take().unwrap();
        let (tx, rx) = std::sync::mpsc::channel();
        std::thread::spawn(move || {
            for line in BufReader::new(stdout).lines() {
                match line {
                    Ok(l) => {
                        if tx.send(l).is_err() {
                            break;
                        }
                    }
                    Err(_) => break,
                }
            }
        });
        Ok(Self { child, stdin, replies: rx })
    }
    /// One command, one reply line. A child that does not answer within 60 s is killed and the
    /// reply is "TIMEOUT" (treated as inconclusive by the caller, never as a verdict).
    fn exec(&mut self, line: &str) -> String {
        if writeln!(self.stdin, "{line}").is_err() || self.stdin.flush().is_err() {
            return "DEAD".into();
        }
        match self.replies.recv_timeout(Duration::from_secs(60)) {
            Ok(r) => r.trim().to_string(),
            Err(std::sync::mpsc::RecvTimeoutError::Timeout) => {
                let _ = self.child.kill();
                "TIMEOUT".into()
            }
            Err(_) => "DEAD".into(),
        }
    }
}

impl Drop for Remote {
    fn drop(&mut self) {
        let _ = writeln!(self.stdin, "EXIT");
        let _ = self.stdin.flush();
        let _ = self.child.wait();
    }
}

fn files_state(dir: &Path) -> BTreeMap<String, (u64, u64)> {
    let mut out = BTreeMap::new();
    for f in ["data", "regions"] {
        if let Ok(b) = std::fs::read(dir.join(f)) {
            out.insert(f.to_string(), (b.len() as u64, fnv(&b)));
        }
    }
    out
}

struct HistOutcome {
    log: Vec<String>,
    failed: Option<(String, String)>,
    stats: Counter,
}

/// One totally ordered command history over `n_remote` children + the parent itself.
fn run_history(rng: &mut Rng, n_remote: usize, steps: usize) -> HistOutcome {
    let tmp = TempDir::new("proc");
    let dir: PathBuf = tmp.path().join("db");
    let dir_s = dir.to_string_lossy().to_string();
    let mut local = Participant::default();
    let mut remotes: Vec<Remote> = vec![];
    let mut out = HistOutcome { log: vec![], failed: None, stats: Counter::default() };
    for _ in 0..n_remote {
        match Remote::spawn() {
            Ok(r) => remotes.push(r),
            Err(e) => {
                out.failed = Some(("harness|spawn".into(), format!("cannot spawn child: {e}")));
                return out;
            }
        }
    }
    let n_part = n_remote + 1;
    // model
    let mut live: Vec<BTreeSet<String>> = vec![BTreeSet::new(); n_part]; // holder ids per participant
    let mut dbs: Vec<BTreeSet<String>> = vec![BTreeSet::new(); n_part]; // ids that are Database handles
    let mut readers: Vec<BTreeSet<String>> = vec![BTreeSet::new(); n_part];
    let mut flushed_digest: Option<String> = None; // what the last holder flushed
    let mut next_id = 0u64;
    let mut wrote_since_flush = false;

    macro_rules! send {
        ($p:expr, $cmd:expr) => {{
            let cmd: String = $cmd;
            let reply = if $p == 0 { local.exec(&cmd) } else { remotes[$p - 1].exec(&cmd) };
            out.log.push(format!("P{} {} -> {}", $p, cmd.replace(&dir_s, "<dir>"), reply));
            if reply == "TIMEOUT" {
                out.failed = Some(("inconclusive|child".into(), format!("child process P{} did not answer '{}' ({reply})", $p, cmd.replace(&dir_s, "<dir>"))));
                return out;
            }
            if reply == "DEAD" {
                // the participant process is gone without having been told to exit: it was
                // killed by a fault inside library code while executing this command
                out.failed = Some(("participant-process-died".into(), format!("participant P{} died while executing '{}'", $p, cmd.replace(&dir_s, "<dir>"))));
                return out;
            }
            reply
        }};
    }
    macro_rules! fail {
        ($sig:expr, $what:expr) => {{
            out.failed = Some(($sig.to_string(), $what));
            return out;
        }};
    }

    for _ in 0..steps {
        let holder: Option<usize> = (0..n_part).find(|&p| !live[p].is_empty());
        let choice = rng.below(100);
        if holder.is_none() || choice < 30 {
            // ---- somebody tries to open -------------------------------------------------------
            let p = rng.below(n_part);
            let cur_len = std::fs::metadata(dir.join("data")).map(|m| m.len() as usize).unwrap_or(0);
            let min_len = match rng.below(5) {
                0 => 0,
                1 => 4096,
                2 => cur_len / 2 / 4096 * 4096,
                3 => cur_len + 4096 * rng.range(1, 300),
                _ => 1 << 20,
            };
            let before = files_state(&dir);
            next_id += 1;
            let id = format!("h{next_id}");
            let reply = send!(p, format!("OPEN {id} {dir_s} {min_len}"));
            let after = files_state(&dir);
            match holder {
                Some(h) => {
                    out.stats.bump(if h == p { "refused_open:same_participant" } else if p == 0 || h == 0 { "refused_open:parent_vs_child" } else { "refused_open:child_vs_child" });
                    out.stats.bump(if min_len > cur_len { "refused_open:min_len_above_size" } else { "refused_open:min_len_below_size" });
                    if reply.starts_with("OK") {
                        fail!("two-holders", format!("P{p} opened the directory while P{h} still holds it ({:?})", live[h]));
                    }
                    if reply != "ERR lock" {
                        fail!(format!("refused-open-not-a-lock-error|{}", reply.split(':').next().unwrap_or("")), format!("a refused open returned '{reply}' instead of a lock error"));
                    }
                    if before != after {
                        fail!("refused-open-modified-files", format!("a refused open (min_len {min_len}, file {cur_len} bytes) changed the files: {before:?} -> {after:?}"));
                    }
                }
                None => {
                    out.stats.bump("successful_open");
                    if !reply.starts_with("OK") {
                        fail!("open-after-release-failed", format!("nobody holds the directory but P{p}'s open returned '{reply}'"));
                    }
                    live[p].insert(id.clone());
                    dbs[p].insert(id.clone());
                    let init = send!(p, format!("INIT {id}"));
                    if init != "OK" {
                        fail!("harness|init", init);
                    }
                    if let Some(want) = &flushed_digest {
                        let got = send!(p, format!("DIGEST {id}"));
                        if got != format!("OK {want}") {
                            fail!("reopen-sees-other-data", format!("after release the new holder sees digest '{got}', the previous holder flushed '{want}'"));
                        }
                        out.stats.bump("reopen_digest_checked");
                    }
                    wrote_since_flush = false;
                }
            }
            continue;
        }
        let h = holder.unwrap();
        let some_db = dbs[h].iter().next().cloned();
        match choice {
            30..=44 => {
                // extend the holder's lifetime with another kind of handle
                let Some(from) = some_db else { continue };
                next_id += 1;
                let id = format!("h{next_id}");
                let (cmd, kind) = match rng.below(3) {
                    0 => (format!("CLONE {id} {from}"), "clone"),
                    1 => (format!("REGIONDB {id} {from} r{}", rng.below(3)), "region_db"),
                    _ => (format!("READER {id} {from} r{}", rng.below(3)), "reader"),
                };
                let reply = send!(h, cmd);
                if reply != "OK" {
                    fail!("harness|holder", format!("could not create a {kind} holder: {reply}"));
                }
                out.stats.bump(&format!("holder:{kind}"));
                live[h].insert(id.clone());
                if kind == "reader" {
                    readers[h].insert(id);
                } else {
                    dbs[h].insert(id);
                }
            }
            45..=52 => {
                let Some(from) = some_db else { continue };
                let reply = send!(h, format!("BG {from} {}", rng.range(1, 30)));
                if reply != "OK" {
                    fail!("harness|bg", reply);
                }
                out.stats.bump("holder:background_task");
            }
            53..=66 => {
                // write + flush (never while this participant holds a reader: documented misuse)
                let Some(from) = some_db else { continue };
                if !readers[h].is_empty() {
                    continue;
                }
                let n = match rng.below(4) { 0 => rng.range(1, 100), 1 => rng.range(4000, 9000), _ => rng.range(100, 70_000) };
                let reply = send!(h, format!("WRITE {from} r{} {n} {}", rng.below(3), rng.next_u64() % 100_000));
                if reply != "OK" {
                    fail!("harness|write", reply);
                }
                wrote_since_flush = true;
                if rng.chance(3, 4) {
                    let reply = send!(h, format!("FLUSH {from}"));
                    let Some(d) = reply.strip_prefix("OK ") else { fail!("harness|flush", reply) };
                    flushed_digest = Some(d.to_string());
                    wrote_since_flush = false;
                    out.stats.bump("flushes");
                }
            }
            _ => {
                // drop one holder (any kind, any order)
                let ids: Vec<String> = live[h].iter().cloned().collect();
                let id = rng.pick(&ids).clone();
                // unflushed writes may or may not be visible later: flush before the last handle goes
                if live[h].len() == 1 && wrote_since_flush {
                    if let Some(from) = dbs[h].iter().next().cloned() {
                        let reply = send!(h, format!("FLUSH {from}"));
                        if let Some(d) = reply.strip_prefix("OK ") {
                            flushed_digest = Some(d.to_string());
                            wrote_since_flush = false;
                        }
                    } else {
                        continue; // only a reader is left: cannot flush through it, keep it
                    }
                }
                let reply = send!(h, format!("DROP {id}"));
                if reply != "OK" {
                    fail!("harness|drop", reply);
                }
                live[h].remove(&id);
                dbs[h].remove(&id);
                readers[h].remove(&id);
                out.stats.bump("drops");
                if live[h].is_empty() {
                    out.stats.bump("releases");
                }
            }
        }
    }
    out
}

/// N threads (and a child process) open the same directory at once: a shared counter is raised
/// right after a successful open and lowered right before the drop, so observing 2 proves overlap.
/// "Background tasks extend the holder's lifetime": participant A starts background tasks (one
/// of them busy for `hold_ms`), then drops its only handle on a helper thread; participant B
/// keeps trying to open. B's first successful open must not be earlier than the end of A's busy
/// task (both instants are read from CLOCK_MONOTONIC inside the respective process), and until
/// then every attempt must fail with a lock error. The verdict compares two recorded instants
/// that are at least the rest of the task's busy time apart when the property is broken; machine
/// load can only delay B, never make it early.
fn bg_extends_lifetime(variant: usize, hold_ms: u64, stats: &mut Counter) -> Result<Vec<String>, (String, String)> {
    let tmp = TempDir::new("procbg");
    let dir = tmp.path().join("db").to_string_lossy().to_string();
    let mut log = vec![];
    let mut a = Remote::spawn().map_err(|e| ("inconclusive|child".to_string(), format!("cannot spawn child: {e}")))?;
    let mut b = Remote::spawn().map_err(|e| ("inconclusive|child".to_string(), format!("cannot spawn child: {e}")))?;
    let mut say = |who: &str, r: &mut Remote, cmd: String, log: &mut Vec<String>| -> Result<String, (String, String)> {
        let reply = r.exec(&cmd);
        log.push(format!("{who} {} -> {reply}", cmd.replace(&dir, "<dir>")));
        if reply == "TIMEOUT" || reply == "DEAD" || reply.starts_with("FAIL") || reply.starts_with("PANIC") {
            return Err(("inconclusive|child".into(), format!("participant {who} answered '{reply}' to '{}'", cmd.replace(&dir, "<dir>"))));
        }
        Ok(reply)
    };
    say("A", &mut a, format!("OPEN h1 {dir} 0"), &mut log)?;
    say("A", &mut a, "INIT h1".into(), &mut log)?;
    say("A", &mut a, "WRITE h1 r0 3000 5".into(), &mut log)?;
    say("A", &mut a, "FLUSH h1".into(), &mut log)?;
    // the order and number of run_bg calls around the busy task
    match variant % 4 {
        0 => {
            say("A", &mut a, format!("BGHOLD h1 {hold_ms}"), &mut log)?;
        }
        1 => {
            say("A", &mut a, format!("BGHOLD h1 {hold_ms}"), &mut log)?;
            say("A", &mut a, "BG h1 5".into(), &mut log)?;
        }
        2 => {
            say("A", &mut a, "BG h1 5".into(), &mut log)?;
            say("A", &mut a, format!("BGHOLD h1 {hold_ms}"), &mut log)?;
            say("A", &mut a, "BG h1 3".into(), &mut log)?;
        }
        _ => {
            say("A", &mut a, format!("BGHOLD h1 {hold_ms}"), &mut log)?;
            say("A", &mut a, "BG h1 5".into(), &mut log)?;
            say("A", &mut a, "BG h1 5".into(), &mut log)?;
        }
    }
    say("A", &mut a, "DROPASYNC h1".into(), &mut log)?;
    let give_up = std::time::Instant::now() + Duration::from_millis(hold_ms + 20_000);
    let mut refused = 0u64;
    let t_open: u64 = loop {
        let r = say("B", &mut b, format!("OPENAT h2 {dir}"), &mut log)?;
        if let Some(t) = r.strip_prefix("OK ") {
            break t.trim().parse().unwrap_or(0);
        }
        if r != "ERR lock" {
            return Err((format!("refused-open-not-a-lock-error|{}", r.split(':').next().unwrap_or("")), format!("while the previous holder was going away an open returned '{r}'")));
        }
        refused += 1;
        if std::time::Instant::now() > give_up {
            return Err(("inconclusive|lock-never-released".into(), "the directory was not released within 20 s after the busy task must have ended".into()));
        }
        std::thread::sleep(Duration::from_millis(15));
    };
    stats.add("bg_lifetime:refused_opens_while_task_ran", refused);
    stats.bump("bg_lifetime:scenarios");
    // the busy task's end (wait for it: with the property broken it may still be running)
    let t_end: u64 = loop {
        let r = say("A", &mut a, "TASKEND".into(), &mut log)?;
        let t: u64 = r.strip_prefix("OK ").and_then(|x| x.trim().parse().ok()).unwrap_or(0);
        if t != 0 {
            break t;
        }
        if std::time::Instant::now() > give_up {
            return Err(("inconclusive|task-never-ended".into(), "the busy background task did not report its end".into()));
        }
        std::thread::sleep(Duration::from_millis(20));
    };
    if t_open < t_end {
        return Err(("opened-while-background-task-of-previous-holder-ran".into(), format!("a second process opened the directory {} ms before a background task started by the previous holder (run_bg variant {}) had ended: the last handle's drop did not wait for it", (t_end - t_open) / 1_000_000, variant % 4)));
    }
    say("B", &mut b, "DIGEST h2".into(), &mut log)?;
    say("B", &mut b, "DROP h2".into(), &mut log)?;
    Ok(log)
}

fn racing_opens(rng: &mut Rng, rounds: usize, stats: &mut Counter) -> Option<(String, String)> {
    let tmp = TempDir::new("race");
    let dir = tmp.path().join("db");
    {
        let db = Database::open(&dir).ok()?;
        let r = db.create_region_if_needed("seed").ok()?;
        r.write(&pattern(7, 5000)).ok()?;
        db.flush().ok()?;
    }
    let before_digest = {
        let db = Database::open(&dir).ok()?;
        digest(&db)
    };
    for _ in 0..rounds {
        let n = rng.range(2, 8);
        let inside = Arc::new(AtomicI64::new(0));
        let max_seen = Arc::new(AtomicI64::new(0));
        let wins = Arc::new(AtomicU64::new(0));
        let other_err = Arc::new(std::sync::Mutex::new(None::<String>));
        let barrier = Arc::new(Barrier::new(n));
        std::thread::scope(|s| {
            for t in 0..n {
                let (inside, max_seen, wins, barrier, other_err, dir) = (inside.clone(), max_seen.clone(), wins.clone(), barrier.clone(), other_err.clone(), dir.clone());
                let min_len = if t % 2 == 0 { 0 } else { 4096 * (t + 1) * 50 };
                s.spawn(move || {
                    barrier.wait();
                    let res = if min_len == 0 { Database::open(&dir) } else { Database::open_with_min_len(&dir, min_len) };
                    match res {
                        Ok(db) => {
                            let now = inside.fetch_add(1, Ordering::SeqCst) + 1;
                            max_seen.fetch_max(now, Ordering::SeqCst);
                            wins.fetch_add(1, Ordering::SeqCst);
                            std::thread::sleep(Duration::from_micros(300));
                            inside.fetch_sub(1, Ordering::SeqCst);
                            drop(db);
                        }
                        Err(rawdb::Error::TryLock(_)) => {}
                        Err(e) => *other_err.lock().unwrap() = Some(e.to_string()),
                    }
                });
            }
        });
        stats.add("racing:opens", n as u64);
        stats.add("racing:winners", wins.load(Ordering::SeqCst));
        if max_seen.load(Ordering::SeqCst) > 1 {
            return Some(("two-holders|racing-threads".into(), format!("{} threads held the directory at the same time", max_seen.load(Ordering::SeqCst))));
        }
        if let Some(e) = other_err.lock().unwrap().take() {
            return Some(("refused-open-not-a-lock-error|racing".into(), format!("a racing open failed with '{e}'")));
        }
    }
    let db = Database::open(&dir).ok()?;
    if digest(&db) != before_digest {
        return Some(("reopen-sees-other-data|racing".into(), "contents changed across racing opens".into()));
    }
    None
}

/// The check runs in a child process of its own: the harness process is itself one of the
/// participants (it opens, holds and drops databases and starts background tasks), and the one
/// failure the histories cannot report from the inside is the checker being killed by a fault in
/// library code - e.g. a background task that outlives the last owner of its database and touches
/// freed state. Death by SIGABRT / SIGSEGV / SIGBUS / SIGILL is reported as a violation with the
/// command that replays it; SIGKILL (out of memory, external watchdog) is inconclusive.
pub fn check_c18_supervised(ctx: &Ctx) -> i32 {
    if std::env::var("VERIF_C18_INNER").is_ok() {
        return check_c18(ctx);
    }
    use std::os::unix::process::ExitStatusExt;
    let exe = match std::env::current_exe() {
        Ok(e) => e,
        Err(_) => return check_c18(ctx),
    };
    let args: Vec<String> = std::env::args().skip(1).collect();
    let status = Command::new(exe).args(&args).env("VERIF_C18_INNER", "1").status();
    match status {
        Ok(st) => {
            if let Some(code) = st.code() {
                return code;
            }
            let sig = st.signal().unwrap_or(0);
            let report = Report::new("C18");
            let what = format!("the process that drives the open / hold / drop histories (itself a participant holding databases, readers and background tasks) was killed by signal {sig} inside library code");
            if sig == 9 {
                report.inconclusive(format!("{what} (SIGKILL: not attributable)"));
            } else {
                report.violation(ctx, Violation { sig: format!("C18|participant-process-killed|signal={sig}"), what, detail: json!({"signal": sig, "replay": format!("VERIF_SEED={} VERIF_C18_INNER=1 anydb-verif C18 --tier {}", ctx.seed, ctx.tier.as_str())}) });
            }
            let coverage = json!({
                "evaluations": 1,
                "distinct_nontrivial": 0,
                "rule": "the supervised run of the C18 histories ended abnormally before it could write its own evidence; one evaluation = that run",
                "samples": [{"outcome": format!("killed by signal {sig}")}],
            });
            report.finish(ctx, "exploration", coverage, &["see the normal evidence of this check for what a completed run covers"])
        }
        Err(e) => {
            let report = Report::new("C18");
            report.harness_error(format!("cannot start the supervised run: {e}"));
            report.finish(ctx, "exploration", json!({"evaluations": 0, "distinct_nontrivial": 0, "rule": "supervised run could not be started", "samples": []}), &[])
        }
    }
}

pub fn check_c18(ctx: &Ctx) -> i32 {
    let report = Report::new("C18");
    let mut stats = Counter::default();
    let mut histories = 0u64;
    let mut distinct = BTreeSet::new();
    let mut samples: Vec<Value> = vec![];
    let deadline = ctx.elapsed() + ctx.secs(20.0, 150.0);
    let mut h = 0u64;
    while ctx.elapsed() < deadline && report.violation_count() == 0 {
        let mut rng = Rng::derive(ctx.seed, &[18, h]);
        h += 1;
        let n_remote = rng.range(1, 3);
        let steps = rng.range(20, 70);
        let o = run_history(&mut rng, n_remote, steps);
        histories += 1;
        stats.merge(&o.stats);
        stats.add("commands", o.log.len() as u64);
        if o.stats.get("releases") >= 1 && o.stats.0.keys().filter(|k| k.starts_with("refused_open:")).count() >= 2 {
            distinct.insert(fnv(o.log.join("\n").as_bytes()));
        }
        if samples.len() < 2 && o.log.len() > 10 {
            samples.push(json!({"processes": n_remote + 1, "commands": o.log.iter().take(30).collect::<Vec<_>>()}));
        }
        if let Some((sig, what)) = o.failed {
            if sig.starts_with("inconclusive|") {
                report.inconclusive(what);
                break;
            }
            report.violation(ctx, Violation { sig: format!("C18|{sig}"), what, detail: json!({"processes": n_remote + 1, "history": o.log}) });
        }
    }
    // background tasks extend the holder's lifetime (directed, all run_bg orders)
    for variant in 0..ctx.pick(4, 12) {
        if report.violation_count() > 0 {
            break;
        }
        match bg_extends_lifetime(variant, 700 + 150 * (variant as u64 % 3), &mut stats) {
            Ok(log) => {
                if samples.len() < 3 {
                    samples.push(json!({"scenario": "background task extends the holder's lifetime", "commands": log.iter().take(14).collect::<Vec<_>>()}));
                }
            }
            Err((sig, what)) if sig.starts_with("inconclusive|") => report.inconclusive(what),
            Err((sig, what)) => {
                report.violation(ctx, Violation { sig: format!("C18|{sig}"), what, detail: json!({"scenario": "bg_extends_lifetime", "variant": variant}) });
            }
        }
    }
    let mut rng = Rng::derive(ctx.seed, &[1818]);
    let mut rstats = Counter::default();
    if let Some((sig, what)) = racing_opens(&mut rng, ctx.pick(60, 600), &mut rstats) {
        report.violation(ctx, Violation { sig: format!("C18|{sig}"), what, detail: json!({"scenario": "racing opens from threads"}) });
    }
    stats.merge(&rstats);
    let refused: u64 = stats.0.iter().filter(|(k, _)| k.starts_with("refused_open:") && !k.contains("min_len")).map(|(_, v)| *v).sum();
    if refused == 0 || stats.get("successful_open") == 0 {
        report.harness_error("no refused / successful open was observed");
    }
    let coverage = json!({
        "evaluations": refused + stats.get("successful_open") + stats.get("racing:opens"),
        "distinct_nontrivial": distinct.len(),
        "rule": "one evaluation = one Database::open / open_with_min_len attempt whose outcome is judged: inside totally ordered command histories over the harness process and 1-3 command-server child processes (OPEN with min_len 0 / below / above the current size, CLONE, region-derived database reference, READER, background task, WRITE+FLUSH, DROP in any order) against a holder-set model - an open while any holder of any participant is alive must fail with a lock error and leave `data` and `regions` byte-identical (size + content hash before/after); an open after the last holder is gone must succeed and see exactly the digest (name, length, content hash of every region) the previous holder flushed - plus rounds of 2-8 threads opening at once with an occupancy counter. distinct_nontrivial = distinct histories with >= 1 release and >= 2 kinds of refused open",
        "samples": samples,
        "histories": histories,
        "commands_executed": stats.get("commands"),
        "refused_opens": stats.0.iter().filter(|(k, _)| k.starts_with("refused_open:")).map(|(k, v)| (k[13..].to_string(), json!(v))).collect::<serde_json::Map<_, _>>(),
        "successful_opens": stats.get("successful_open"),
        "reopen_digests_checked": stats.get("reopen_digest_checked"),
        "holder_kinds": stats.0.iter().filter(|(k, _)| k.starts_with("holder:")).map(|(k, v)| (k[7..].to_string(), json!(v))).collect::<serde_json::Map<_, _>>(),
        "releases": stats.get("releases"),
        "racing": {"opens": stats.get("racing:opens"), "winners": stats.get("racing:winners")},
    });
    report.finish(ctx, "exploration", coverage, &["advisory flock semantics of the local file system (tmpfs / ext4)", "a participant never writes while it holds a reader (documented misuse)"])
}
