//! C07 helper (independent parser of the on-disk page index) — the codec fuzzer of C17 lives
//! here as well.

use rawdb::Reader;
use vecdb::HEADER_OFFSET;

use crate::vecmodel::{VMismatch, VecExec, VecLike};

#[derive(Debug, Clone, Copy)]
pub struct PageEntry {
    pub start: u64,
    pub bytes: u32,
    pub values: u32,
    pub raw: bool,
}

pub fn parse_page_index(bytes: &[u8]) -> Result<Vec<PageEntry>, String> {
    if bytes.len() % 16 != 0 {
        return Err(format!("page index region length {} is not a multiple of 16", bytes.len()));
    }
    Ok(bytes
        .chunks(16)
        .map(|c| {
            let start = u64::from_le_bytes(c[0..8].try_into().unwrap());
            let b = u32::from_le_bytes(c[8..12].try_into().unwrap());
            let v = u32::from_le_bytes(c[12..16].try_into().unwrap());
            PageEntry { start, bytes: b, values: v & 0x7fff_ffff, raw: v & 0x8000_0000 != 0 }
        })
        .collect())
}

/// Reads the `<name>_pages` region through rawdb and checks the well-formedness clause of C07.
pub fn check_page_index<V: VecLike>(ex: &VecExec<V>) -> Result<(), VMismatch> {
    let names = ex.v().v_region_names();
    let mk = |what: String| VMismatch { sig: format!("page-index|{}", crate::common::normalize_msg(&what)), what };
    let Some(pages_name) = names.iter().find(|n| n.ends_with("_pages")) else {
        return Err(mk(format!("no page-index region among {names:?}")));
    };
    let data_name = &names[0];
    let db = &ex.db;
    let pr = db.get_region(pages_name).ok_or_else(|| mk("page index region missing".into()))?;
    let dr = db.get_region(data_name).ok_or_else(|| mk("data region missing".into()))?;
    let reader: Reader = pr.create_reader();
    let idx = parse_page_index(reader.read_all()).map_err(mk)?;
    drop(reader);
    let data_len = dr.meta().len();
    let pp = V::per_page();
    let size = size_of::<V::E>();
    let mut pos = HEADER_OFFSET as u64;
    let mut total = 0usize;
    for (i, p) in idx.iter().enumerate() {
        let last = i + 1 == idx.len();
        if p.start != pos {
            return Err(mk(format!("page {i} starts at {} but the previous one ended at {pos} (gap or overlap)", p.start)));
        }
        if p.values as usize > pp || p.values == 0 {
            return Err(mk(format!("page {i} holds {} values (capacity {pp})", p.values)));
        }
        if !last && (p.values as usize != pp) {
            return Err(mk(format!("page {i} of {} is not full: {} values", idx.len(), p.values)));
        }
        if !last && p.raw {
            return Err(mk(format!("page {i} of {} is stored uncompressed but is not the last", idx.len())));
        }
        if p.raw && p.bytes as usize != p.values as usize * size {
            return Err(mk(format!("raw page {i}: {} bytes for {} values of {size} bytes", p.bytes, p.values)));
        }
        pos += p.bytes as u64;
        total += p.values as usize;
    }
    if data_len as u64 != pos {
        return Err(mk(format!("data region length {data_len} but the last page ends at {pos}")));
    }
    let want = ex.model.len();
    if total != want {
        return Err(mk(format!("page value counts add up to {total} but the stored length is {want}")));
    }
    if ex.v().v_real_stored_len() != total {
        return Err(mk(format!("real_stored_len {} but on-disk index says {total}", ex.v().v_real_stored_len())));
    }
    Ok(())
}
