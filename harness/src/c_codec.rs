//! C07 helper (independent parser of the on-disk page index) — the codec fuzzer of C17 lives
//! here as well.

use rawdb::Reader;
use vecdb::HEADER_OFFSET;

use crate::vecmodel::{VMismatch, VecExec, VecLike};

#[derive(Debug, Clone, Copy)]
pub struct PageEntry {
    pub start: u64,
    pub bytes: u32,
    pub values: u32,
    pub raw: bool,
}

pub fn parse_page_index(bytes: &[u8]) -> Result<Vec<PageEntry>, String> {
    if bytes.len() % 16 != 0 {
        return Err(format!("page index region length {} is not a multiple of 16", bytes.len()));
    }
    Ok(bytes
        .chunks(16)
        .map(|c| {
            let start = u64::from_le_bytes(c[0..8].try_into().unwrap());
            let b = u32::from_le_bytes(c[8..12].try_into().unwrap());
            let v = u32::from_le_bytes(c[12..16].try_into().unwrap());
            PageEntry { start, bytes: b, values: v & 0x7fff_ffff, raw: v & 0x8000_0000 != 0 }
        })
        .collect())
}

/// Reads the `<name>_pages` region through rawdb and checks the well-formedness clause of C07.
pub fn check_page_index<V: VecLike>(ex: &VecExec<V>) -> Result<(), VMismatch> {
    let names = ex.v().v_region_names();
    let mk = |what: String| VMismatch { sig: format!("page-index|{}", crate::common::normalize_msg(&what)), what };
    let Some(pages_name) = names.iter().find(|n| n.ends_with("_pages")) else {
        return Err(mk(format!("no page-index region among {names:?}")));
    };
    let data_name = &names[0];
    let db = &ex.db;
    let pr = db.get_region(pages_name).ok_or_else(|| mk("page index region missing".into()))?;
    let dr = db.get_region(data_name).ok_or_else(|| mk("data region missing".into()))?;
    let reader: Reader = pr.create_reader();
    let idx = parse_page_index(reader.read_all()).map_err(mk)?;
    drop(reader);
    let data_len = dr.meta().len();
    let pp = V::per_page();
    let size = size_of::<V::E>();
    let mut pos = HEADER_OFFSET as u64;
    let mut total = 0usize;
    for (i, p) in idx.iter().enumerate() {
        let last = i + 1 == idx.len();
        if p.start != pos {
            return Err(mk(format!("page {i} starts at {} but the previous one ended at {pos} (gap or overlap)", p.start)));
        }
        if p.values as usize > pp || p.values == 0 {
            return Err(mk(format!("page {i} holds {} values (capacity {pp})", p.values)));
        }
        if !last && (p.values as usize != pp) {
            return Err(mk(format!("page {i} of {} is not full: {} values", idx.len(), p.values)));
        }
        if !last && p.raw {
            return Err(mk(format!("page {i} of {} is stored uncompressed but is not the last", idx.len())));
        }
        if p.raw && p.bytes as usize != p.values as usize * size {
            return Err(mk(format!("raw page {i}: {} bytes for {} values of {size} bytes", p.bytes, p.values)));
        }
        pos += p.bytes as u64;
        total += p.values as usize;
    }
    if data_len as u64 != pos {
        return Err(mk(format!("data region length {data_len} but the last page ends at {pos}")));
    }
    let want = ex.model.len();
    if total != want {
        return Err(mk(format!("page value counts add up to {total} but the stored length is {want}")));
    }
    if ex.v().v_real_stored_len() != total {
        return Err(mk(format!("real_stored_len {} but on-disk index says {total}", ex.v().v_real_stored_len())));
    }
    Ok(())
}

// =============================================================================================
// C17 (E-CODEC): round trips at the limits + truncation / bit-flip / field-overwrite mutation of
// valid encodings for every on-disk codec. The fuzz loop runs in child processes (an allocation
// failure aborts and cannot be caught); a counting allocator bounds per-call allocation.
// =============================================================================================

use std::{
    alloc::{GlobalAlloc, Layout as ALayout, System},
    cell::Cell,
    process::{Command, Stdio},
};

use rawdb::RegionMetadata;
use serde_json::{Value, json};
use vecdb::{Bytes, Format, Stamp, Version};

use crate::common::{Counter, Ctx, Report, Rng, TempDir, Violation, catch, normalize_msg};

pub struct CountingAlloc;

thread_local! {
    static TRACK: Cell<bool> = const { Cell::new(false) };
    static CUR: Cell<usize> = const { Cell::new(0) };
    static PEAK: Cell<usize> = const { Cell::new(0) };
}

unsafe impl GlobalAlloc for CountingAlloc {
    unsafe fn alloc(&self, l: ALayout) -> *mut u8 {
        let _ = TRACK.try_with(|t| {
            if t.get() {
                CUR.with(|c| {
                    c.set(c.get() + l.size());
                    PEAK.with(|p| p.set(p.get().max(c.get())));
                });
            }
        });
        unsafe { System.alloc(l) }
    }
    unsafe fn dealloc(&self, ptr: *mut u8, l: ALayout) {
        let _ = TRACK.try_with(|t| {
            if t.get() {
                CUR.with(|c| c.set(c.get().saturating_sub(l.size())));
            }
        });
        unsafe { System.dealloc(ptr, l) }
    }
    unsafe fn realloc(&self, ptr: *mut u8, l: ALayout, new_size: usize) -> *mut u8 {
        let _ = TRACK.try_with(|t| {
            if t.get() {
                CUR.with(|c| {
                    c.set(c.get().saturating_sub(l.size()) + new_size);
                    PEAK.with(|p| p.set(p.get().max(c.get())));
                });
            }
        });
        unsafe { System.realloc(ptr, l, new_size) }
    }
}

/// Runs `f` and returns (result, peak bytes allocated by this thread during the call).
fn measured<R>(f: impl FnOnce() -> R) -> (Result<R, String>, usize) {
    CUR.with(|c| c.set(0));
    PEAK.with(|p| p.set(0));
    TRACK.with(|t| t.set(true));
    let r = catch(f);
    TRACK.with(|t| t.set(false));
    (r, PEAK.with(|p| p.get()))
}

const PAGE: usize = 4096;

fn enc_meta(start: u64, len: u64, reserved: u64, id: &[u8], id_len_field: Option<u64>) -> Vec<u8> {
    let mut b = vec![0u8; PAGE];
    b[0..8].copy_from_slice(&start.to_le_bytes());
    b[8..16].copy_from_slice(&len.to_le_bytes());
    b[16..24].copy_from_slice(&reserved.to_le_bytes());
    b[24..32].copy_from_slice(&id_len_field.unwrap_or(id.len() as u64).to_le_bytes());
    let n = id.len().min(PAGE - 32);
    b[32..32 + n].copy_from_slice(&id[..n]);
    b
}

fn meta_is_valid(start: u64, len: u64, reserved: u64, id: &[u8]) -> bool {
    !(start == 0 && len == 0 && reserved == 0 && id.is_empty())
        && id.len() <= 1024
        && std::str::from_utf8(id).is_ok()
        && start % PAGE as u64 == 0
        && reserved >= PAGE as u64
        && reserved % PAGE as u64 == 0
        && len <= reserved
}

const LIMITS: [u64; 16] = [0, 1, 4095, 4096, 4097, 8192, 1 << 20, (1 << 32) - 1, 1 << 32, (1 << 32) + 4096, 1 << 40, (1 << 63) - 4096, 1 << 63, u64::MAX - 4095, u64::MAX - 1, u64::MAX];

fn mutate(rng: &mut Rng, valid: &[u8], field_offsets: &[usize]) -> (Vec<u8>, &'static str) {
    let mut b = valid.to_vec();
    match rng.below(6) {
        0 => {
            let cut = rng.below(b.len() + 1);
            b.truncate(cut);
            (b, "truncated")
        }
        1 => {
            if !b.is_empty() {
                let i = rng.below(b.len());
                b[i] ^= 1 << rng.below(8);
            }
            (b, "bit-flip")
        }
        2 => {
            for _ in 0..rng.range(2, 6) {
                if !b.is_empty() {
                    let i = rng.below(b.len());
                    b[i] ^= 1 << rng.below(8);
                }
            }
            (b, "multi-bit-flip")
        }
        3 | 4 => {
            if let Some(&off) = field_offsets.get(rng.below(field_offsets.len().max(1)))
                && off + 8 <= b.len()
            {
                let v = *rng.pick(&LIMITS);
                b[off..off + 8].copy_from_slice(&v.to_le_bytes());
            }
            (b, "field-overwrite")
        }
        _ => {
            let extra = rng.range(1, 9);
            for _ in 0..extra {
                b.push(rng.next_u64() as u8);
            }
            (b, "extended")
        }
    }
}

struct Fz<'a> {
    stats: &'a mut Counter,
    fail: Option<(String, String, Value)>,
}

impl Fz<'_> {
    /// Calls a decoder on arbitrary bytes: no panic, bounded allocation; `check` judges an Ok value.
    fn decode<T>(&mut self, codec: &str, how: &str, input: &[u8], f: impl FnOnce(&[u8]) -> Result<T, String>, check: impl FnOnce(&T) -> Result<(), String>) -> Option<T> {
        if self.fail.is_some() {
            return None;
        }
        self.stats.bump(&format!("decode:{codec}:{how}"));
        let (r, peak) = measured(|| f(input));
        let bound = 4 * input.len() + 64 * 1024;
        let hex = |b: &[u8]| b.iter().take(96).map(|x| format!("{x:02x}")).collect::<String>();
        match r {
            Err(p) => {
                self.fail = Some((format!("{codec}|panic|{}", normalize_msg(&p)), format!("{codec} decoder panicked on a {how} input of {} bytes: {p}", input.len()), json!({"codec": codec, "mutation": how, "input_len": input.len(), "input_hex_prefix": hex(input)})));
                None
            }
            Ok(res) => {
                if peak > bound {
                    self.fail = Some((format!("{codec}|allocation"), format!("{codec} decoder allocated {peak} bytes for a {how} input of {} bytes (bound {bound})", input.len()), json!({"codec": codec, "mutation": how, "input_len": input.len(), "input_hex_prefix": hex(input)})));
                    return None;
                }
                match res {
                    Ok(v) => {
                        self.stats.bump(&format!("accepted:{codec}"));
                        if let Err(why) = check(&v) {
                            self.fail = Some((format!("{codec}|accepted-invalid"), format!("{codec} decoder accepted a {how} input but the value violates the type's rules: {why}"), json!({"codec": codec, "mutation": how, "input_len": input.len(), "input_hex_prefix": hex(input)})));
                            return None;
                        }
                        Some(v)
                    }
                    Err(_) => {
                        self.stats.bump(&format!("rejected:{codec}"));
                        None
                    }
                }
            }
        }
    }

    fn must(&mut self, cond: bool, sig: &str, what: String) {
        if !cond && self.fail.is_none() {
            self.fail = Some((sig.to_string(), what, json!({})));
        }
    }
}

fn check_meta(m: &RegionMetadata) -> Result<(), String> {
    if m.start() % PAGE != 0 {
        return Err(format!("start {} not page-aligned", m.start()));
    }
    if m.reserved() < PAGE || m.reserved() % PAGE != 0 {
        return Err(format!("reserved {} not a positive page multiple", m.reserved()));
    }
    if m.len() > m.reserved() {
        return Err(format!("len {} > reserved {}", m.len(), m.reserved()));
    }
    if m.id().len() > 1024 {
        return Err(format!("id of {} bytes", m.id().len()));
    }
    Ok(())
}

fn numeric_roundtrips(fz: &mut Fz<'_>, rng: &mut Rng) {
    macro_rules! num {
        ($($t:ty),*) => {$(
            for _ in 0..8 {
                let v: $t = match rng.below(5) { 0 => <$t>::MAX, 1 => <$t>::MIN, 2 => 0 as $t, 3 => 1 as $t, _ => rng.next_u64() as $t };
                let b = v.to_bytes();
                let name = concat!("numeric<", stringify!($t), ">");
                let back = fz.decode(name, "valid", b.as_ref(), |x| <$t>::from_bytes(x).map_err(|e| e.to_string()), |_| Ok(()));
                fz.must(back.map(|x| x.to_bytes()) == Some(b), "numeric|roundtrip", format!("{name}: decode(encode(x)) != x"));
                // wrong lengths must be refused
                let mut short = b.as_ref().to_vec();
                short.pop();
                let r = fz.decode(name, "truncated", &short, |x| <$t>::from_bytes(x).map_err(|e| e.to_string()), |_| Err("a value was decoded from a short slice".into()));
                let _ = r;
                let mut long = b.as_ref().to_vec();
                long.push(0);
                let _ = fz.decode(name, "extended", &long, |x| <$t>::from_bytes(x).map_err(|e| e.to_string()), |_| Err("a value was decoded from an over-long slice".into()));
            }
        )*};
    }
    num!(u8, u16, u32, u64, u128, usize, i8, i16, i32, i64, i128, isize);
    for _ in 0..8 {
        let v = f64::from_bits(rng.next_u64());
        let b = v.to_bytes();
        let back = fz.decode("numeric<f64>", "valid", b.as_ref(), |x| f64::from_bytes(x).map_err(|e| e.to_string()), |_| Ok(()));
        fz.must(back.map(|x| x.to_bits()) == Some(v.to_bits()), "numeric|roundtrip", "f64 bit pattern not preserved".into());
        let v = f32::from_bits(rng.next_u64() as u32);
        let b = v.to_bytes();
        let back = fz.decode("numeric<f32>", "valid", b.as_ref(), |x| f32::from_bytes(x).map_err(|e| e.to_string()), |_| Ok(()));
        fz.must(back.map(|x| x.to_bits()) == Some(v.to_bits()), "numeric|roundtrip", "f32 bit pattern not preserved".into());
    }
    macro_rules! arr {
        ($($n:expr),*) => {$(
            {
                let mut v = [0u8; $n];
                for x in v.iter_mut() { *x = rng.next_u64() as u8; }
                let b = v.to_bytes();
                let name = concat!("array<", stringify!($n), ">");
                let back = fz.decode(name, "valid", b.as_ref(), |x| <[u8; $n]>::from_bytes(x).map_err(|e| e.to_string()), |_| Ok(()));
                fz.must(back == Some(v), "array|roundtrip", format!("{name}: decode(encode(x)) != x"));
                let _ = fz.decode(name, "truncated", &b[..$n - 1], |x| <[u8; $n]>::from_bytes(x).map_err(|e| e.to_string()), |_| Err("decoded from a short slice".into()));
                let mut long = b.to_vec();
                long.push(7);
                let _ = fz.decode(name, "extended", &long, |x| <[u8; $n]>::from_bytes(x).map_err(|e| e.to_string()), |_| Err("decoded from an over-long slice".into()));
            }
        )*};
    }
    arr!(1, 2, 3, 4, 5, 7, 8, 15, 16, 17, 20, 31, 32, 33, 64, 65);
    // derive-generated impls
    {
        use crate::vecmodel::WB;
        let v = WB(rng.next_u64());
        let b = v.to_bytes();
        let back = fz.decode("derive(Bytes)", "valid", b.as_ref(), |x| WB::from_bytes(x).map_err(|e| e.to_string()), |_| Ok(()));
        fz.must(back == Some(v), "derive|roundtrip", "derive(Bytes): decode(encode(x)) != x".into());
        let _ = fz.decode("derive(Bytes)", "truncated", &b.as_ref()[..7], |x| WB::from_bytes(x).map_err(|e| e.to_string()), |_| Err("decoded from a short slice".into()));
    }
    for v in [0u64, 1, u64::MAX, rng.next_u64()] {
        let s = Stamp::new(v);
        let back = fz.decode("Stamp", "valid", s.to_bytes().as_ref(), |x| Stamp::from_bytes(x).map_err(|e| e.to_string()), |_| Ok(()));
        fz.must(back.map(u64::from) == Some(v), "stamp|roundtrip", "Stamp round trip".into());
        let ver = Version::new(v as u32);
        let back = fz.decode("Version", "valid", ver.to_bytes().as_ref(), |x| Version::from_bytes(x).map_err(|e| e.to_string()), |_| Ok(()));
        fz.must(back.map(u32::from) == Some(v as u32), "version|roundtrip", "Version round trip".into());
    }
    for byte in 0..=255u8 {
        let r = fz.decode("Format", if [0u8, 1, 64, 65, 66].contains(&byte) { "valid" } else { "invalid-tag" }, &[byte], |x| Format::from_bytes(x).map_err(|e| e.to_string()), |f| if f.to_bytes()[0] == byte { Ok(()) } else { Err("format tag not preserved".into()) });
        fz.must(r.is_some() == [0u8, 1, 64, 65, 66].contains(&byte), "format|tag", format!("Format::from_bytes([{byte}]) accepted/refused wrongly"));
    }
}

fn fuzz_metadata(fz: &mut Fz<'_>, rng: &mut Rng, rounds: usize) {
    let dec = |x: &[u8]| RegionMetadata::from_bytes(x).map_err(|e| e.to_string());
    for _ in 0..rounds {
        // structured values at and around the limits (valid and invalid)
        let start = *rng.pick(&LIMITS);
        let len = *rng.pick(&LIMITS);
        let reserved = *rng.pick(&LIMITS);
        let id: Vec<u8> = match rng.below(7) {
            0 => vec![],
            1 => b"a".to_vec(),
            2 => vec![b'x'; 1024],
            3 => vec![b'y'; 1025],
            4 => vec![0xff, 0xfe, 0x80],
            5 => "r/é∂/2".as_bytes().to_vec(),
            _ => (0..rng.range(1, 64)).map(|_| b'a' + rng.below(26) as u8).collect(),
        };
        let valid = meta_is_valid(start, len, reserved, &id);
        let bytes = enc_meta(start, len, reserved, &id, None);
        let got = fz.decode("RegionMetadata", if valid { "valid" } else { "invalid-field" }, &bytes, dec, check_meta);
        if valid {
            let ok = got.as_ref().is_some_and(|m| m.start() as u64 == start && m.len() as u64 == len && m.reserved() as u64 == reserved && m.id().as_bytes() == &id[..]);
            fz.must(ok, "RegionMetadata|roundtrip", format!("a valid slot (start {start}, len {len}, reserved {reserved}, id {} bytes) did not decode to the same fields", id.len()));
        } else {
            fz.must(got.is_none(), "RegionMetadata|accepted-invalid", format!("an invalid slot (start {start}, len {len}, reserved {reserved}, id {} bytes) was accepted", id.len()));
        }
        // a valid slot, mutated
        let base = enc_meta(4096 * rng.below(1000) as u64, rng.below(4096) as u64, 4096 * rng.range(1, 8) as u64, b"region/name", None);
        let (m, how) = mutate(rng, &base, &[0, 8, 16, 24]);
        let _ = fz.decode("RegionMetadata", how, &m, dec, check_meta);
        // id_len field lying about the id
        let lying = enc_meta(0, 10, 4096, b"abc", Some(*rng.pick(&LIMITS)));
        let _ = fz.decode("RegionMetadata", "field-overwrite", &lying, dec, check_meta);
    }
}

fn fuzz_header_page(fz: &mut Fz<'_>, rng: &mut Rng, rounds: usize) {
    let formats = [Format::Bytes, Format::ZeroCopy, Format::Pco, Format::LZ4, Format::Zstd];
    for _ in 0..rounds {
        let (hv, vv, cv) = (rng.next_u64() as u32, *rng.pick(&[0u32, 1, u32::MAX, 7]), rng.next_u64() as u32);
        let st = *rng.pick(&LIMITS);
        let f = *rng.pick(&formats);
        let bytes = vecdb::verif_header_to_bytes(Version::new(hv), Version::new(vv), Version::new(cv), Stamp::new(st), f);
        let dec = |x: &[u8]| vecdb::verif_header_from_bytes(x).map_err(|e| e.to_string());
        let got = fz.decode("Header", "valid", &bytes, dec, |_| Ok(()));
        let ok = got.is_some_and(|(a, b, c, s, g)| u32::from(a) == hv && u32::from(b) == vv && u32::from(c) == cv && u64::from(s) == st && g.to_bytes() == f.to_bytes());
        fz.must(ok, "Header|roundtrip", "header fields not preserved".into());
        let (m, how) = mutate(rng, &bytes, &[0, 4, 8, 12]);
        let _ = fz.decode("Header", how, &m, dec, |(_, _, _, _, g)| if [0u8, 1, 64, 65, 66].contains(&g.to_bytes()[0]) { Ok(()) } else { Err("unknown format tag".into()) });

        let (ps, pb, pv, raw) = (*rng.pick(&LIMITS), rng.next_u64() as u32, (rng.next_u64() as u32) & 0x7fff_ffff, rng.chance(1, 2));
        let bytes = vecdb::verif_page_to_bytes(ps, pb, pv, raw);
        let dec = |x: &[u8]| vecdb::verif_page_from_bytes(x).map_err(|e| e.to_string());
        let got = fz.decode("Page", "valid", &bytes, dec, |_| Ok(()));
        fz.must(got == Some((ps, pb, pv, raw)), "Page|roundtrip", format!("page entry (start {ps}, bytes {pb}, values {pv}, raw {raw}) not preserved: {got:?}"));
        let (m, how) = mutate(rng, &bytes, &[0, 8]);
        let _ = fz.decode("Page", how, &m, dec, |_| Ok(()));
    }
}

fn build_change(rng: &mut Rng, size: usize, raw: bool) -> (Vec<u8>, Vec<usize>, (u64, usize, usize, usize, usize)) {
    // stamp, prev_stored_len, stored_len, truncated, [vals], prev_pushed, [vals], pushed, [vals] (+ raw tail)
    let stamp = rng.next_u64() % 1000;
    let stored = rng.below(50);
    let truncated = rng.below(6);
    let prev_stored = stored + truncated;
    let prev_pushed = rng.below(5);
    let pushed = rng.below(6);
    let mut b = vec![];
    let mut offs = vec![];
    b.extend(stamp.to_le_bytes());
    for v in [prev_stored, stored, truncated] {
        offs.push(b.len());
        b.extend((v as u64).to_le_bytes());
    }
    let mut vals = |b: &mut Vec<u8>, n: usize| {
        for _ in 0..n * size {
            b.push(rng.next_u64() as u8);
        }
    };
    vals(&mut b, truncated);
    offs.push(b.len());
    b.extend((prev_pushed as u64).to_le_bytes());
    vals(&mut b, prev_pushed);
    offs.push(b.len());
    b.extend((pushed as u64).to_le_bytes());
    vals(&mut b, pushed);
    if raw {
        let modified = rng.below(5);
        offs.push(b.len());
        b.extend((modified as u64).to_le_bytes());
        for _ in 0..modified {
            b.extend((rng.below(prev_stored + 1) as u64).to_le_bytes());
        }
        for _ in 0..modified * size {
            b.push(rng.next_u64() as u8);
        }
        let holes = rng.below(4);
        offs.push(b.len());
        b.extend((holes as u64).to_le_bytes());
        for _ in 0..holes {
            b.extend((rng.below(60) as u64).to_le_bytes());
        }
    }
    (b, offs, (stamp, prev_stored, stored, truncated, prev_pushed))
}

fn fuzz_changes(fz: &mut Fz<'_>, rng: &mut Rng, rounds: usize) {
    macro_rules! base {
        ($t:ty, $name:expr) => {{
            let size = size_of::<$t>();
            let (rec, offs, (stamp, prev_stored, _stored, truncated, prev_pushed)) = build_change(rng, size, false);
            let dec = |x: &[u8]| vecdb::verif_parse_base_change::<$t>(x).map_err(|e| e.to_string());
            let got = fz.decode($name, "valid", &rec, dec, |_| Ok(()));
            let ok = got.is_some_and(|(s, psl, tstart, tv, pp)| u64::from(s) == stamp && psl == prev_stored && tstart == prev_stored - truncated && tv.len() == truncated && pp.len() == prev_pushed);
            fz.must(ok, "ChangeRecord|roundtrip", format!("{}: a well-formed record did not parse to its parts", $name));
            for _ in 0..4 {
                let (m, how) = mutate(rng, &rec, &offs);
                let _ = fz.decode($name, how, &m, dec, |(_, psl, tstart, tv, _)| if tstart + tv.len() == *psl { Ok(()) } else { Err("inconsistent truncation fields accepted".into()) });
            }
            // every truncation length
            for cut in 0..rec.len() {
                let _ = fz.decode($name, "truncated", &rec[..cut], dec, |_| Err(format!("a record cut to {cut} of {} bytes was accepted", rec.len())));
            }
        }};
    }
    for _ in 0..rounds {
        base!(u8, "ChangeRecord<u8>");
        base!(u32, "ChangeRecord<u32>");
        base!(u64, "ChangeRecord<u64>");
        base!(u128, "ChangeRecord<u128>");
        base!([u8; 3], "ChangeRecord<[u8;3]>");
        // raw records (with the modified-slot and previous-holes sections)
        let (rec, offs, _) = build_change(rng, 8, true);
        let dec = |x: &[u8]| vecdb::verif_parse_raw_change::<u64>(x).map_err(|e| e.to_string());
        let got = fz.decode("RawChangeRecord<u64>", "valid", &rec, dec, |_| Ok(()));
        fz.must(got.is_some(), "ChangeRecord|roundtrip", "a well-formed raw record was refused".into());
        for _ in 0..6 {
            let (m, how) = mutate(rng, &rec, &offs);
            let _ = fz.decode("RawChangeRecord<u64>", how, &m, dec, |_| Ok(()));
        }
        for cut in 0..rec.len() {
            let _ = fz.decode("RawChangeRecord<u64>", "truncated", &rec[..cut], dec, |_| Err(format!("a raw record cut to {cut} of {} bytes was accepted", rec.len())));
        }
    }
}

/// Crafted `regions` files: valid slots interleaved with damaged ones; exactly the valid ones
/// must be present after `Database::open`, and the open must not panic.
fn fuzz_regions_file(fz: &mut Fz<'_>, rng: &mut Rng, rounds: usize) {
    for _ in 0..rounds {
        let tmp = TempDir::new("regfile");
        let dir = tmp.path().join("db");
        std::fs::create_dir_all(&dir).unwrap();
        let n = rng.range(1, 8);
        let mut file = vec![];
        let mut want: Vec<(String, u64, u64, u64)> = vec![];
        let mut next_start = 0u64;
        for i in 0..n {
            let reserved = 4096 * rng.range(1, 4) as u64;
            let len = rng.below(reserved as usize + 1) as u64;
            let id = format!("region{i}");
            let good = enc_meta(next_start, len, reserved, id.as_bytes(), None);
            match rng.below(4) {
                0 => {
                    // damaged slot: must be ignored
                    let mut bad = good.clone();
                    match rng.below(4) {
                        0 => bad[0..8].copy_from_slice(&(next_start + 1).to_le_bytes()),
                        1 => bad[8..16].copy_from_slice(&(reserved + 1).to_le_bytes()),
                        2 => bad[24..32].copy_from_slice(&5000u64.to_le_bytes()),
                        _ => bad[32] = 0xff,
                    }
                    file.extend(bad);
                }
                1 => file.extend(vec![0u8; PAGE]), // empty slot
                _ => {
                    file.extend(good);
                    want.push((id, next_start, len, reserved));
                    next_start += reserved;
                }
            }
        }
        std::fs::write(dir.join("regions"), &file).unwrap();
        std::fs::write(dir.join("data"), vec![0x5a; next_start as usize + 4096]).unwrap();
        fz.stats.bump("decode:regions-file:crafted");
        let (r, _) = measured(|| rawdb::Database::open(&dir));
        match r {
            Err(p) => fz.must(false, &format!("regions-file|panic|{}", normalize_msg(&p)), format!("Database::open panicked on a crafted regions file: {p}")),
            Ok(Err(e)) => fz.must(false, "regions-file|open-failed", format!("Database::open failed on a regions file with damaged slots next to valid ones: {e}")),
            Ok(Ok(db)) => {
                let mut have: Vec<(String, u64, u64, u64)> = {
                    let regs = db.regions();
                    regs.id_to_index().keys().map(|k| k.to_string()).collect::<Vec<_>>()
                }
                .into_iter()
                .filter_map(|k| db.get_region(&k).map(|r| { let m = r.meta(); (k, m.start() as u64, m.len() as u64, m.reserved() as u64) }))
                .collect();
                have.sort();
                want.sort();
                fz.must(have == want, "regions-file|valid-slots-disturbed", format!("after open the regions are {have:?}, the valid slots were {want:?}"));
            }
        }
    }
}

/// One shard of the fuzz campaign (runs in a child process). Prints a JSON line.
pub fn c17_shard(seed: u64, shard: u64, secs: f64) -> i32 {
    let start = std::time::Instant::now();
    let mut stats = Counter::default();
    let mut rng = Rng::derive(seed, &[17, shard]);
    let mut fz = Fz { stats: &mut stats, fail: None };
    let mut rounds = 0u64;
    numeric_roundtrips(&mut fz, &mut rng);
    while start.elapsed().as_secs_f64() < secs && fz.fail.is_none() {
        fuzz_metadata(&mut fz, &mut rng, 40);
        fuzz_header_page(&mut fz, &mut rng, 40);
        fuzz_changes(&mut fz, &mut rng, 2);
        fuzz_regions_file(&mut fz, &mut rng, 2);
        numeric_roundtrips(&mut fz, &mut rng);
        rounds += 1;
    }
    let fail = fz.fail.take();
    let out = json!({
        "shard": shard,
        "rounds": rounds,
        "stats": stats.to_json(),
        "fail": fail.map(|(sig, what, detail)| json!({"sig": sig, "what": what, "detail": detail})),
    });
    println!("C17SHARD {out}");
    0
}

pub fn check_c17(ctx: &Ctx) -> i32 {
    let report = Report::new("C17");
    let secs = ctx.secs(20.0, 200.0);
    let exe = std::env::current_exe().expect("current exe");
    let mut children = vec![];
    for shard in 0..ctx.threads as u64 {
        let c = Command::new(&exe)
            .args(["c17-shard", &ctx.seed.to_string(), &shard.to_string(), &format!("{secs}")])
            .stdout(Stdio::piped())
            .stderr(Stdio::null())
            .spawn();
        match c {
            Ok(c) => children.push((shard, c)),
            Err(e) => report.harness_error(format!("cannot spawn shard {shard}: {e}")),
        }
    }
    let mut stats = Counter::default();
    let mut rounds = 0u64;
    let mut samples: Vec<Value> = vec![];
    for (shard, c) in children {
        let out = c.wait_with_output();
        match out {
            Ok(o) => {
                let text = String::from_utf8_lossy(&o.stdout);
                let line = text.lines().find_map(|l| l.strip_prefix("C17SHARD "));
                match (o.status.success(), line.and_then(|l| serde_json::from_str::<Value>(l).ok())) {
                    (true, Some(v)) => {
                        rounds += v["rounds"].as_u64().unwrap_or(0);
                        if let Some(m) = v["stats"].as_object() {
                            for (k, n) in m {
                                stats.add(k, n.as_u64().unwrap_or(0));
                            }
                        }
                        if let Some(f) = v["fail"].as_object() {
                            report.violation(ctx, Violation { sig: format!("C17|{}", f["sig"].as_str().unwrap_or("?")), what: f["what"].as_str().unwrap_or("").to_string(), detail: json!({"shard": shard, "seed": ctx.seed, "case": f["detail"]}) });
                        }
                    }
                    _ => {
                        // died without a report: abort (allocation failure), stack overflow, signal
                        report.violation(ctx, Violation { sig: "C17|decoder-aborted-the-process".into(), what: format!("fuzz shard {shard} (seed {}) died with {:?} - a decoder aborted the process (allocation failure / overflow)", ctx.seed, o.status), detail: json!({"shard": shard, "seed": ctx.seed, "replay": format!("anydb-verif c17-shard {} {shard} {secs}", ctx.seed)}) });
                    }
                }
            }
            Err(e) => report.harness_error(format!("shard {shard}: {e}")),
        }
    }
    if samples.is_empty() {
        samples.push(json!({"codec": "RegionMetadata", "valid": "start 4096k, len<=reserved, reserved page multiple, utf-8 id <= 1024 bytes", "invalid": "misaligned start, reserved 0/4095/4097, len > reserved, id_len 1025/2^32/2^63/u64::MAX, non-UTF-8 id", "mutations": ["truncated at a random length", "single / multi bit flips", "each 8-byte field overwritten with 0,1,4095,4096,4097,2^32+-1,2^40,2^63,u64::MAX-k", "extended"]}));
        samples.push(json!({"codec": "change records", "cases": "well-formed base/raw records for u8,u32,u64,u128,[u8;3]; cut at EVERY byte length; length fields overwritten with limit values; bit flips"}));
    }
    let decodes: u64 = stats.0.iter().filter(|(k, _)| k.starts_with("decode:")).map(|(_, v)| *v).sum();
    if decodes == 0 {
        report.harness_error("no decoder call was made");
    }
    let by_codec = |prefix: &str| -> serde_json::Map<String, Value> {
        let mut m = serde_json::Map::new();
        for (k, v) in &stats.0 {
            if let Some(r) = k.strip_prefix(prefix) {
                m.insert(r.to_string(), json!(v));
            }
        }
        m
    };
    let coverage = json!({
        "evaluations": decodes,
        "distinct_nontrivial": stats.0.keys().filter(|k| k.starts_with("decode:")).count() as u64 * rounds.max(1),
        "rule": "one evaluation = one decoder call on one input inside a child process: valid encodings of structured values at and around the limits (must decode to exactly the encoded fields), and truncations / single and multiple bit flips / every length field overwritten with limit values / extensions of valid encodings (must return an error or a value satisfying the type's rules; a panic, an abort of the child, or a peak allocation above 4 x input + 64 KiB measured by a counting allocator is a violation). Codecs: RegionMetadata slots, crafted regions files opened with Database::open (exactly the valid slots must be present), vector headers, page-index entries, Stamp/Version/Format, all numeric Bytes impls, byte arrays of 16 widths, derive(Bytes), base and raw change records for 5 element types (cut at every byte length). distinct_nontrivial = (codec, mutation kind) classes x fuzz rounds (each round draws fresh random values)",
        "samples": samples,
        "fuzz_rounds": rounds,
        "shards": ctx.threads,
        "decoder_calls_by_codec_and_mutation": by_codec("decode:"),
        "accepted_by_codec": by_codec("accepted:"),
        "rejected_by_codec": by_codec("rejected:"),
    });
    report.finish(ctx, "exploration", coverage, &["native release build (overflow checks off); the dev-profile and Miri passes are separate commands of the thorough tier"])
}

// ---------------------------------------------------------------------------------------------
// Miri pass (thorough tier of C07 and C17): the pure codecs under the undefined-behaviour
// interpreter. Miri cannot open a database (file-backed MAP_SHARED), so this covers exactly the
// code that needs no mapping: every decoder of C17 except the crafted regions files, the page
// payload codecs (raw page bytes, Pco, LZ4 through the public CompressionStrategy entry points; Zstd is C code behind FFI, which Miri cannot enter) and the
// raw pointer readers of the raw formats on heap buffers at every alignment. Bounded by rounds,
// not by wall-clock time, so that one run is the same work at any interpreter speed.

fn miri_page_codecs(fz: &mut Fz<'_>, rng: &mut Rng) {
    use vecdb::{BytesStrategy, CompressionStrategy, LZ4Strategy, PcodecStrategy, RawStrategy, ValueStrategy, ZeroCopyStrategy};
    macro_rules! vals {
        ($t:ty, $n:expr, $conv:expr) => {{
            let n = $n;
            let mode = rng.below(4);
            let mut v: Vec<$t> = Vec::with_capacity(n);
            for i in 0..n {
                let x = match mode {
                    0 => rng.next_u64(),
                    1 => i as u64,
                    2 => *rng.pick(&[0u64, 1, u64::MAX, u64::MAX - 1, 1 << 63, (1 << 63) - 1, 0x7ff0_0000_0000_0000, 0xfff8_0000_0000_0001]),
                    _ => 1000 + rng.below(7) as u64,
                };
                v.push($conv(x));
            }
            v
        }};
    }
    macro_rules! page_codec {
        ($strat:ty, $t:ty, $name:expr, $conv:expr, $bits:expr) => {{
            let n = *rng.pick(&[0usize, 1, 2, 7, 64, 255, 256, 300]);
            let v: Vec<$t> = vals!($t, n, $conv);
            let same = |a: &[$t], b: &[$t]| a.len() == b.len() && a.iter().zip(b).all(|(x, y)| $bits(*x) == $bits(*y));
            // raw page
            fz.stats.bump(&format!("decode:{}:raw-page", $name));
            let raw = <$strat>::values_to_bytes(&v);
            fz.must(raw.len() == n * size_of::<$t>(), "page|raw-size", format!("{}: raw page of {n} values is {} bytes", $name, raw.len()));
            match catch(|| <$strat>::bytes_to_values(&raw, n)) {
                Ok(Ok(back)) => fz.must(same(&back, &v), "page|raw-roundtrip", format!("{}: raw page of {n} values did not decode to the values written", $name)),
                Ok(Err(e)) => fz.must(false, "page|raw-roundtrip", format!("{}: raw page of {n} values refused: {e}", $name)),
                Err(p) => fz.must(false, "page|panic", format!("{}: raw page decode panicked: {p}", $name)),
            }
            let mut dst: Vec<$t> = vals!($t, rng.below(5), $conv);
            let r = catch(|| <$strat>::bytes_to_values_into(&raw, n, &mut dst));
            fz.must(matches!(r, Ok(Ok(()))) && same(&dst, &v), "page|raw-roundtrip", format!("{}: bytes_to_values_into of a raw page differs", $name));
            // short raw page must be refused, not read past the slice
            if n > 0 {
                let r = catch(|| <$strat>::bytes_to_values(&raw[..raw.len() - 1], n));
                fz.must(matches!(r, Ok(Err(_))), "page|short-raw-accepted", format!("{}: a raw page one byte short was not refused", $name));
            }
            // compressed page
            if n > 0 {
                fz.stats.bump(&format!("decode:{}:compressed-page", $name));
                match catch(|| <$strat>::compress(&v)) {
                    Ok(Ok(c)) => {
                        match catch(|| <$strat>::decompress(&c, n)) {
                            Ok(Ok(back)) => fz.must(same(&back, &v), "page|roundtrip", format!("{}: compressed page of {n} values did not decode bit-exactly", $name)),
                            Ok(Err(e)) => fz.must(false, "page|roundtrip", format!("{}: own compressed page refused: {e}", $name)),
                            Err(p) => fz.must(false, "page|panic", format!("{}: decode panicked on its own output: {p}", $name)),
                        }
                        let mut dst: Vec<$t> = vals!($t, rng.below(5), $conv);
                        let r = catch(|| <$strat>::decompress_into(&c, n, &mut dst));
                        fz.must(matches!(r, Ok(Ok(()))) && same(&dst, &v), "page|roundtrip", format!("{}: decompress_into differs", $name));
                        let mut app: Vec<$t> = vals!($t, 3, $conv);
                        let head = app.clone();
                        let r = catch(|| <$strat>::decompress_append(&c, n, &mut app));
                        fz.must(matches!(r, Ok(Ok(()))) && same(&app[..3], &head) && same(&app[3..], &v), "page|roundtrip", format!("{}: decompress_append differs", $name));
                        // damaged payloads: an error or some value, never a panic (and, under Miri, no UB)
                        for _ in 0..3 {
                            let (m, how) = mutate(rng, &c, &[]);
                            fz.stats.bump(&format!("decode:{}:{how}", $name));
                            let mut dst: Vec<$t> = vec![];
                            if let Err(p) = catch(|| { let _ = <$strat>::decompress_into(&m, n, &mut dst); let _ = <$strat>::decompress(&m, n); }) {
                                fz.must(false, &format!("page|panic|{}", normalize_msg(&p)), format!("{}: decoder panicked on a {how} payload: {p}", $name));
                            }
                        }
                    }
                    Ok(Err(e)) => fz.must(false, "page|compress-failed", format!("{}: compress failed on {n} values: {e}", $name)),
                    Err(p) => fz.must(false, "page|panic", format!("{}: compress panicked: {p}", $name)),
                }
            }
        }};
    }
    page_codec!(PcodecStrategy<u16>, u16, "Pco<u16>", |x: u64| x as u16, |x: u16| x as u64);
    page_codec!(PcodecStrategy<u32>, u32, "Pco<u32>", |x: u64| x as u32, |x: u32| x as u64);
    page_codec!(PcodecStrategy<u64>, u64, "Pco<u64>", |x: u64| x, |x: u64| x);
    page_codec!(PcodecStrategy<i64>, i64, "Pco<i64>", |x: u64| x as i64, |x: i64| x as u64);
    page_codec!(PcodecStrategy<f32>, f32, "Pco<f32>", |x: u64| f32::from_bits(x as u32), |x: f32| x.to_bits() as u64);
    page_codec!(PcodecStrategy<f64>, f64, "Pco<f64>", |x: u64| f64::from_bits(x), |x: f64| x.to_bits());
    page_codec!(LZ4Strategy<u8>, u8, "LZ4<u8>", |x: u64| x as u8, |x: u8| x as u64);
    page_codec!(LZ4Strategy<u32>, u32, "LZ4<u32>", |x: u64| x as u32, |x: u32| x as u64);
    page_codec!(LZ4Strategy<u64>, u64, "LZ4<u64>", |x: u64| x, |x: u64| x);
    page_codec!(LZ4Strategy<f64>, f64, "LZ4<f64>", |x: u64| f64::from_bits(x), |x: f64| x.to_bits());
    page_codec!(LZ4Strategy<[u8; 3]>, [u8; 3], "LZ4<[u8;3]>", |x: u64| [x as u8, (x >> 8) as u8, (x >> 16) as u8], |x: [u8; 3]| x[0] as u64 | (x[1] as u64) << 8 | (x[2] as u64) << 16);

    // raw pointer readers on a heap buffer, every alignment
    macro_rules! ptr_read {
        ($strat:ty, $t:ty, $name:expr, $conv:expr, $bits:expr) => {{
            let n = rng.range(1, 40);
            let v: Vec<$t> = vals!($t, n, $conv);
            let mut buf = vec![0xa5u8; rng.below(8)];
            let lead = buf.len();
            for x in &v {
                <$strat as ValueStrategy<$t>>::write_to_vec(x, &mut buf);
            }
            fz.stats.bump(&format!("decode:{}:ptr-read", $name));
            for (i, x) in v.iter().enumerate() {
                let got = unsafe { <$strat as RawStrategy<$t>>::read_from_ptr(buf.as_ptr(), lead + i * size_of::<$t>()) };
                fz.must($bits(got) == $bits(*x), "ptr-read|wrong", format!("{}: read_from_ptr at element {i} (lead {lead}) differs", $name));
                let mut slot = vec![0u8; size_of::<$t>()];
                <$strat as ValueStrategy<$t>>::write_to_slice(x, &mut slot);
                fz.must(slot[..] == buf[lead + i * size_of::<$t>()..lead + (i + 1) * size_of::<$t>()], "ptr-read|write_to_slice", format!("{}: write_to_slice and write_to_vec disagree", $name));
            }
        }};
    }
    ptr_read!(BytesStrategy<u16>, u16, "Bytes<u16>", |x: u64| x as u16, |x: u16| x as u64);
    ptr_read!(BytesStrategy<u64>, u64, "Bytes<u64>", |x: u64| x, |x: u64| x);
    ptr_read!(BytesStrategy<u128>, u128, "Bytes<u128>", |x: u64| (x as u128) << 64 | x as u128, |x: u128| x as u64 ^ (x >> 64) as u64);
    ptr_read!(BytesStrategy<f64>, f64, "Bytes<f64>", |x: u64| f64::from_bits(x), |x: f64| x.to_bits());
    ptr_read!(BytesStrategy<[u8; 3]>, [u8; 3], "Bytes<[u8;3]>", |x: u64| [x as u8, (x >> 8) as u8, (x >> 16) as u8], |x: [u8; 3]| x[0] as u64 | (x[1] as u64) << 8 | (x[2] as u64) << 16);
    ptr_read!(ZeroCopyStrategy<u32>, u32, "ZeroCopy<u32>", |x: u64| x as u32, |x: u32| x as u64);
    ptr_read!(ZeroCopyStrategy<u64>, u64, "ZeroCopy<u64>", |x: u64| x, |x: u64| x);
}

/// `anydb-verif miri-codecs <seed> <shard> <rounds>`: meant to run under `cargo miri run`
/// (also runs natively). Prints the same JSON line as a C17 shard.
pub fn miri_codecs(seed: u64, shard: u64, rounds: u64) -> i32 {
    let mut stats = Counter::default();
    let mut rng = Rng::derive(seed, &[1717, shard]);
    let mut fz = Fz { stats: &mut stats, fail: None };
    let mut done = 0u64;
    while done < rounds && fz.fail.is_none() {
        numeric_roundtrips(&mut fz, &mut rng);
        fuzz_metadata(&mut fz, &mut rng, 3);
        fuzz_header_page(&mut fz, &mut rng, 6);
        fuzz_changes(&mut fz, &mut rng, 1);
        miri_page_codecs(&mut fz, &mut rng);
        done += 1;
    }
    let fail = fz.fail.take();
    let out = json!({
        "shard": shard,
        "rounds": done,
        "stats": stats.to_json(),
        "fail": fail.map(|(sig, what, detail)| json!({"sig": sig, "what": what, "detail": detail})),
    });
    println!("MIRICODECS {out}");
    0
}
