#!/usr/bin/env python3
"""Regenerates /verif/MANIFEST.json from the table below (single source of truth for the
manifest; run after adding a check)."""
import json, subprocess

HOOK_COMMITS = subprocess.run(
    ["git", "-C", "/repo", "log", "--format=%H %s", "--reverse"],
    capture_output=True, text=True).stdout.strip().splitlines()
HOOK_COMMITS = [l.split()[0] for l in HOOK_COMMITS if " verif:" in " " + l.split(" ", 1)[1] or l.split(" ", 1)[1].startswith("verif:")]

# id -> (engine, category, technique, level text, level note, design ref)
CHECKS = {
    "C01": ("E-MODEL", "exploration",
            "reference-model monitor over generated operation histories (step-wise comparison)",
            "Thousands of seeded operation histories (create/write/write_at/truncate/truncate_write/batch write/rename/remove/retain/flush/compact/reopen) are run against the real rawdb; after every operation every live region is read back through the public API and compared byte for byte with an independent byte-vector model. Placement outcomes (fits / extend-last / adjacent hole / relocate to hole / relocate to end) and reopen-with-holes are measured and required. Held-on-K-histories, not a proof.",
            "Trusts the 40-line model; write sizes <= ~1.2 MiB; single-threaded (concurrency is C10).",
            "DESIGN.md §4 C01"),
    "C02": ("E-LAYOUT", "exploration",
            "invariant walker at quiescent points under the library's own locks + placement reuse rule",
            "After every operation of churn-biased histories (and after reopen) the layout is walked under layout->regions->meta read locks: regions/holes/pending holes/reservations aligned, disjoint, gap-free up to Layout::len(), inside the file, promoted holes merged, size index and slot table consistent; each creation/relocation is judged against the pre-state holes (an adequate hole must be used).",
            "Transient states inside an operation are not judged; needs the cfg(verif) accessors for pending holes / reservations.",
            "DESIGN.md §4 C02"),
    "C05": ("E-CRASH", "fault_enumeration",
            "durable-image simulator over recorded mmap-write/set_len/sync/punch events; every crash image opened with the real Database::open",
            "Single-threaded histories are executed with every mmap write, length change, sync and hole punch of both files recorded; a shadow keeps the durable bytes and, per 4 KiB page, every version written since the file's last sync. At event boundaries (all inside flush/compact/region flush/reopen, a sample elsewhere) the strict image and writeback images (all-latest, one file only, each single dirty page/version alone, all-but-one, random subsets) are written to scratch files and recovered with the real open; the result must open, be a valid partition inside the file, keep every region untouched since the last returned flush byte-identical, and (strict) show each region not overwritten in place either as at the last completed flush or as at the begin of the interrupted one.",
            "The OS is modelled under the property's own assumptions (atomic pages, ordered length changes, fdatasync complete, punch immediate); torn writes inside one event and multi-threaded crash histories are not generated.",
            "DESIGN.md §4 C05"),
    "C12": ("E-CRASH", "fault_enumeration",
            "online punch-event checker against durable and live metadata + crash images inside compact()",
            "Compaction-heavy histories: every Punch event is checked against the page-rounded content of every region according to both the durable regions-file shadow and the live one; each compact() is followed by a full model comparison and layout walk; the data-file length must not change; every event boundary inside compact() yields crash images judged as in C05. (The concurrent clause is served by the controlled scheduler, see DESIGN.)",
            "Same OS model as C05; punch support of the scratch file system is required (otherwise inconclusive).",
            "DESIGN.md §4 C12"),
    "C03": ("E-MODEL", "exploration",
            "reference-model monitor over generated operation histories on every stored format (step-wise comparison)",
            "Seeded operation histories (push, truncate, write, flush, stamped write, reset, reset_unsaved, re-import through the creating entry point, and on raw formats update/delete/take/fill_first_hole_or_push) are run on 36 (format, element type) instantiations - Bytes, ZeroCopy, Pco, LZ4, Zstd and EagerVec wrappers over u8..u128, i64, f32/f64 (bit-compared), byte arrays of 3/16/33 bytes and derive(Bytes)/derive(Pco) wrappers. After every operation len, every slot (collect_holed), the deleted-slot set, the stamp and the dense collect() are compared with a list-of-optional-values model; write() is placed at random positions so buffered/stored splits vary. Write regimes (raw: new data / truncated / holes region created / removed; compressed: fast raw append / partial re-encode / fresh pages / boundary truncate) are measured and required.",
            "Trusts the ~150-line model (semantics taken from README/rustdoc); vectors up to ~6 pages; every format is compared with the same deterministic model rather than pairwise.",
            "DESIGN.md §4 C03"),
    "C04": ("E-MODEL", "exploration",
            "reference-model monitor with a commit chain over generated commit/edit/rollback histories",
            "Histories of stamped_write_with_changes commits (retention 1..6, increasing stamps with gaps, no-op commits, re-committing a used stamp after rollback), edits between commits (push, truncate below the stored length, update, delete, take, fill), rollback and rollback_before (targets inside, at and beyond the window) and continuations after every rollback (edit, commit, re-import, roll back again) on all formats; after every operation contents, deleted slots and stamp must equal the model's commit chain, and the result of every call (Ok / error class / returned stamp) must be the one the model predicts.",
            "Rollbacks are issued only from committed states and only pushes/truncations/updates/deletions occur between commits (the statement's domain); the shrinker stays inside that domain.",
            "DESIGN.md §4 C04"),
    "C07": ("E-MODEL", "exploration",
            "bit-exact model comparison + independent parser of the on-disk page index after every write",
            "Compressed vectors (Pco, LZ4, Zstd x integer/float/byte-array elements) are driven through chunked pushes, writes, truncations (into the raw page, into a compressed page, on a boundary) and re-imports; all values are compared bit-exactly (NaN payloads, +-0, subnormals, MIN/MAX are generated regularly) and after every write()/flush/commit/re-import the `<name>_pages` region is read through rawdb and parsed by the harness: gap-free from the header, all pages but the last full and compressed, counts add up to the stored length, data region ends at the last page. The (fill, push, truncate) triples around 0, one page and two pages (13^3 per vector) are enumerated completely for u64 on each codec (more element widths in the thorough tier).",
            "The parser of the 16-byte page entries is the harness's own (written from the format description); values are generated, not exhaustive.",
            "DESIGN.md §4 C07"),
    "C08": ("E-MODEL", "exploration",
            "differential read-API grid against the reference contents in every state reached by C03/C04 histories",
            "In states reached by C03/C04 histories (clean, buffered, truncated, with deleted slots, after rollback) every read API - collect*, collect_range*, collect_one*, signed ranges, fold/try_fold (early exit), for_each*, read_into (append contract), cursor (next/advance/fold/get/position), sorted reads with duplicates and out-of-range tail, min/max/sum, VecReader get/try_get, ZeroCopy read_ref, read-only clone, boxed clone, CachedVec, fold_stored_io/mmap - is called over a grid of (from,to) pairs (0, +-1 around the stored/buffered and page boundaries, len, len+1, usize::MAX, reversed, random) and compared with the model restricted to the range; a panic is a violation. The whole campaign is repeated with the scan back-end crossover set to 0 and 64 bytes (file-IO sources through the generic entry points) and with the default.",
            "Stored-only views (read-only clones, VecReader, fold_stored_*) are compared with what the last write() stored and are only exercised (not value-judged) between a rollback and the next write; VecReader::get only in range (documented panic).",
            "DESIGN.md §4 C08"),
    "C13": ("E-MODEL", "exploration",
            "full before/after snapshot around every refused request + continuation under the step-wise model",
            "Refused requests (rawdb: write_at beyond the end, truncate beyond the length, rename onto an existing name, rename/remove of a removed region, remove with a second live handle, remove of an unknown name; vecdb: update beyond len, checked push at a wrong index, plain import with another version / as another format, rollback without a usable change record) are issued inside ordinary C01/C03/C04 histories. Each must return an error; a full snapshot (every region's start/reserved/len/content, layout walk, file length, change directory, the vector's volatile view) taken before must equal the one taken after, and the history continues (flush, reopen/re-import included) under the step-wise model comparison.",
            "I/O failures of the environment are not injected; refusals are issued in generated states, not all states.",
            "DESIGN.md §4 C13"),
    "C20": ("E-MODEL", "exploration",
            "online access monitor: every byte range fetched from the mapping or the data file is checked against the vector's own regions",
            "The C08 read grid is driven in C03/C04 states (incl. after truncation, after rollback across truncating commits, and through read-only clones / VecReaders) while the observer receives an Access event for every pointer read from the mapping (Reader::unchecked_read, raw strategy reads per element, bulk memcpy reads, ZeroCopy reference reads) and a FileRead event for every file-IO buffer refill; each range must lie within [start, start+len) of the vector's data, page-index or holes region according to the region metadata at that moment. Repeated with the file-IO back-end forced.",
            "A read site without a tap is invisible (the C08 value comparison still sees its result); single-threaded.",
            "DESIGN.md §4 C20"),
}

NOT_YET = {}

def main():
    props = [json.loads(l) for l in open("/verif/properties.jsonl")]
    checks = []
    na = []
    for p in props:
        pid = p["id"]
        if pid in CHECKS:
            eng, cat, tech, text, note, ref = CHECKS[pid]
            checks.append({
                "property_id": pid,
                "quick_cmd": f"./check {pid} --tier quick",
                "thorough_cmd": f"./check {pid} --tier thorough",
                "evidence_file": f"/verif/evidence/{pid}.json",
                "replay_cmd_template": f"./check {pid} --replay {{path}}",
                "engine": eng,
                "level_claimed": {"category": cat, "text": text, "design_ref": ref},
                "level_note": note,
                "technique": tech,
            })
        else:
            na.append({"property_id": pid,
                       "reason": NOT_YET.get(pid, "monitor designed (DESIGN.md §4) but not built yet in this session; not claimed until its check runs silent on the unchanged tree")})
    m = {
        "version": 1,
        "setup_cmd": "cd /verif/harness && CARGO_NET_OFFLINE=true CARGO_TARGET_DIR=/verif/harness/target cargo build --release --offline",
        "hooks": {
            "guard": "cargo feature `verif` on rawdb and vecdb (vecdb/verif enables rawdb/verif); off by default",
            "enable": "the harness crate /verif/harness depends on /repo/crates/{rawdb,vecdb} by path with features = [\"verif\", ...]; `./check` rebuilds it from /repo's working tree on every invocation",
            "baseline_off_cmd": "cd /repo && cargo test --workspace --no-fail-fast --offline",
            "source_commits": HOOK_COMMITS,
            "add_only": False,
        },
        "engines": [
            {"name": "E-MODEL", "path": "harness/src/rawmodel.rs, harness/src/c_raw.rs, harness/src/vecmodel.rs, harness/src/c_vec.rs, harness/src/probes.rs", "serves_properties": ["C01", "C02", "C03", "C04", "C07", "C08", "C13", "C20"], "kind_free_text": "seeded history generator + reference model + step-wise comparator + ddmin shrinker (rawdb regions and vecdb vectors)"},
            {"name": "E-CRASH", "path": "harness/src/crash.rs, harness/src/c_crash.rs", "serves_properties": ["C05", "C12"], "kind_free_text": "durable-image shadow of both files from hook events; crash images recovered by the real open"},
            {"name": "E-LAYOUT", "path": "harness/src/rawmodel.rs (check_layout)", "serves_properties": ["C02", "C10", "C13"], "kind_free_text": "extent/partition invariant walker at quiescent points"},
        ],
        "checks": checks,
        "notes": "All checks are one binary (harness/target/release/anydb-verif) driven by ./check <ID>; VERIF_SEED selects the PRNG seed, VERIF_TIER/--tier the depth, VERIF_BUDGET scales exploration time. add_only=false because a handful of `use parking_lot::...` lines are cfg-split so the lock types can be swapped for the tap under the feature; nothing else is rewritten.",
        "not_applicable": na,
    }
    json.dump(m, open("/verif/MANIFEST.json", "w"), indent=1)
    print("wrote MANIFEST.json:", len(checks), "checks,", len(na), "unclaimed")

if __name__ == "__main__":
    main()
