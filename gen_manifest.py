#!/usr/bin/env python3
"""Regenerates /verif/MANIFEST.json from the table below (single source of truth for the
manifest; run after adding a check)."""
import json, subprocess

HOOK_COMMITS = subprocess.run(
    ["git", "-C", "/repo", "log", "--format=%H %s", "--reverse"],
    capture_output=True, text=True).stdout.strip().splitlines()
HOOK_COMMITS = [l.split()[0] for l in HOOK_COMMITS if " verif:" in " " + l.split(" ", 1)[1] or l.split(" ", 1)[1].startswith("verif:")]

# id -> (engine, category, technique, level text, level note, design ref)
CHECKS = {
    "C01": ("E-MODEL", "exploration",
            "reference-model monitor over generated operation histories (step-wise comparison)",
            "Thousands of seeded operation histories (create/write/write_at/truncate/truncate_write/batch write/rename/remove/retain/flush/compact/reopen) are run against the real rawdb; after every operation every live region is read back through the public API and compared byte for byte with an independent byte-vector model. Placement outcomes (fits / extend-last / adjacent hole / relocate to hole / relocate to end) and reopen-with-holes are measured and required. Held-on-K-histories, not a proof.",
            "Trusts the 40-line model; write sizes <= ~1.2 MiB; single-threaded (concurrency is C10).",
            "DESIGN.md §4 C01"),
    "C02": ("E-LAYOUT", "exploration",
            "invariant walker at quiescent points under the library's own locks + placement reuse rule",
            "After every operation of churn-biased histories (and after reopen) the layout is walked under layout->regions->meta read locks: regions/holes/pending holes/reservations aligned, disjoint, gap-free up to Layout::len(), inside the file, promoted holes merged, size index and slot table consistent; each creation/relocation is judged against the pre-state holes (an adequate hole must be used).",
            "Transient states inside an operation are not judged; needs the cfg(verif) accessors for pending holes / reservations.",
            "DESIGN.md §4 C02"),
    "C05": ("E-CRASH", "fault_enumeration",
            "durable-image simulator over recorded mmap-write/set_len/sync/punch events; every crash image opened with the real Database::open",
            "Single-threaded histories are executed with every mmap write, length change, sync and hole punch of both files recorded; a shadow keeps the durable bytes and, per 4 KiB page, every version written since the file's last sync. At event boundaries (all inside flush/compact/region flush/reopen, a sample elsewhere) the strict image and writeback images (all-latest, one file only, each single dirty page/version alone, all-but-one, random subsets) are written to scratch files and recovered with the real open; the result must open, be a valid partition inside the file, keep every region untouched since the last returned flush byte-identical, and (strict) show each region not overwritten in place either as at the last completed flush or as at the begin of the interrupted one.",
            "The OS is modelled under the property's own assumptions (atomic pages, ordered length changes, fdatasync complete, punch immediate); torn writes inside one event and multi-threaded crash histories are not generated.",
            "DESIGN.md §4 C05"),
    "C12": ("E-CRASH", "fault_enumeration",
            "online punch-event checker against durable and live metadata + crash images inside compact()",
            "Compaction-heavy histories: every Punch event is checked against the page-rounded content of every region according to both the durable regions-file shadow and the live one; each compact() is followed by a full model comparison and layout walk; the data-file length must not change; every event boundary inside compact() yields crash images judged as in C05. (The concurrent clause is served by the controlled scheduler, see DESIGN.)",
            "Same OS model as C05; punch support of the scratch file system is required (otherwise inconclusive).",
            "DESIGN.md §4 C12"),
}

NOT_YET = {}

def main():
    props = [json.loads(l) for l in open("/verif/properties.jsonl")]
    checks = []
    na = []
    for p in props:
        pid = p["id"]
        if pid in CHECKS:
            eng, cat, tech, text, note, ref = CHECKS[pid]
            checks.append({
                "property_id": pid,
                "quick_cmd": f"./check {pid} --tier quick",
                "thorough_cmd": f"./check {pid} --tier thorough",
                "evidence_file": f"/verif/evidence/{pid}.json",
                "replay_cmd_template": f"./check {pid} --replay {{path}}",
                "engine": eng,
                "level_claimed": {"category": cat, "text": text, "design_ref": ref},
                "level_note": note,
                "technique": tech,
            })
        else:
            na.append({"property_id": pid,
                       "reason": NOT_YET.get(pid, "monitor designed (DESIGN.md §4) but not built yet in this session; not claimed until its check runs silent on the unchanged tree")})
    m = {
        "version": 1,
        "setup_cmd": "cd /verif/harness && CARGO_NET_OFFLINE=true CARGO_TARGET_DIR=/verif/harness/target cargo build --release --offline",
        "hooks": {
            "guard": "cargo feature `verif` on rawdb and vecdb (vecdb/verif enables rawdb/verif); off by default",
            "enable": "the harness crate /verif/harness depends on /repo/crates/{rawdb,vecdb} by path with features = [\"verif\", ...]; `./check` rebuilds it from /repo's working tree on every invocation",
            "baseline_off_cmd": "cd /repo && cargo test --workspace --no-fail-fast --offline",
            "source_commits": HOOK_COMMITS,
            "add_only": False,
        },
        "engines": [
            {"name": "E-MODEL", "path": "harness/src/rawmodel.rs, harness/src/c_raw.rs", "serves_properties": ["C01", "C02", "C13"], "kind_free_text": "seeded history generator + reference model + step-wise comparator + ddmin shrinker"},
            {"name": "E-CRASH", "path": "harness/src/crash.rs, harness/src/c_crash.rs", "serves_properties": ["C05", "C12"], "kind_free_text": "durable-image shadow of both files from hook events; crash images recovered by the real open"},
            {"name": "E-LAYOUT", "path": "harness/src/rawmodel.rs (check_layout)", "serves_properties": ["C02", "C10", "C13"], "kind_free_text": "extent/partition invariant walker at quiescent points"},
        ],
        "checks": checks,
        "notes": "All checks are one binary (harness/target/release/anydb-verif) driven by ./check <ID>; VERIF_SEED selects the PRNG seed, VERIF_TIER/--tier the depth, VERIF_BUDGET scales exploration time. add_only=false because a handful of `use parking_lot::...` lines are cfg-split so the lock types can be swapped for the tap under the feature; nothing else is rewritten.",
        "not_applicable": na,
    }
    json.dump(m, open("/verif/MANIFEST.json", "w"), indent=1)
    print("wrote MANIFEST.json:", len(checks), "checks,", len(na), "unclaimed")

if __name__ == "__main__":
    main()
