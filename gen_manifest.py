#!/usr/bin/env python3
"""Regenerates /verif/MANIFEST.json from the table below (single source of truth for the
manifest; run after adding a check)."""
import json, subprocess

HOOK_COMMITS = subprocess.run(
    ["git", "-C", "/repo", "log", "--format=%H %s", "--reverse"],
    capture_output=True, text=True).stdout.strip().splitlines()
HOOK_COMMITS = [l.split()[0] for l in HOOK_COMMITS if " verif:" in " " + l.split(" ", 1)[1] or l.split(" ", 1)[1].startswith("verif:")]

# id -> (engine, category, technique, level text, level note, design ref)
CHECKS = {
    "C01": ("E-MODEL", "exploration",
            "reference-model monitor over generated operation histories (step-wise comparison)",
            "Thousands of seeded operation histories (create/write/write_at/truncate/truncate_write/batch write/rename/remove/retain/flush/compact/reopen) are run against the real rawdb; after every operation every live region is read back through the public API and compared byte for byte with an independent byte-vector model. Placement outcomes (fits / extend-last / adjacent hole / relocate to hole / relocate to end) and reopen-with-holes are measured and required. Held-on-K-histories, not a proof.",
            "Trusts the 40-line model; write sizes <= ~1.2 MiB; single-threaded (concurrency is C10).",
            "DESIGN.md §4 C01"),
    "C02": ("E-LAYOUT", "exploration",
            "invariant walker at quiescent points under the library's own locks + placement reuse rule",
            "After every operation of churn-biased histories (and after reopen) the layout is walked under layout->regions->meta read locks: regions/holes/pending holes/reservations aligned, disjoint, gap-free up to Layout::len(), inside the file, promoted holes merged, size index and slot table consistent; each creation/relocation is judged against the pre-state holes (an adequate hole must be used).",
            "Transient states inside an operation are not judged; needs the cfg(verif) accessors for pending holes / reservations.",
            "DESIGN.md §4 C02"),
    "C05": ("E-CRASH", "fault_enumeration",
            "durable-image simulator over recorded mmap-write/set_len/sync/punch events; every crash image opened with the real Database::open",
            "Single-threaded histories are executed with every mmap write, length change, sync and hole punch of both files recorded; a shadow keeps the durable bytes and, per 4 KiB page, every version written since the file's last sync. At event boundaries (all inside flush/compact/region flush/reopen, a sample elsewhere) the strict image and writeback images (all-latest, one file only, each single dirty page/version alone, all-but-one, random subsets) are written to scratch files and recovered with the real open; the result must open, be a valid partition inside the file, keep every region untouched since the last returned flush byte-identical, and (strict) show each region not overwritten in place either as at the last completed flush or as at the begin of the interrupted one.",
            "The OS is modelled under the property's own assumptions (atomic pages, ordered length changes, fdatasync complete, punch immediate); torn writes inside one event and multi-threaded crash histories are not generated.",
            "DESIGN.md §4 C05"),
    "C12": ("E-CRASH", "fault_enumeration",
            "online punch-event checker against durable and live metadata + crash images inside compact() + controlled-scheduler enumeration of writer-vs-compact interleavings",
            "Sequential part - compaction-heavy histories: every Punch event is checked against the page-rounded content of every region according to both the durable regions-file shadow and the live one; each compact() is followed by a full model comparison and layout walk; the data-file length must not change; every event boundary inside compact() yields crash images judged as in C05. Concurrent part - a writer appending into its region's reserve (page-crossing, sub-page, exactly to the page end) against compact() under the controlled scheduler, depth-first over all interleavings up to 3 pre-emptions: region bytes/length, the untouched regions, the file's logical length and the extent invariants are compared afterwards.",
            "Same OS model as C05; punch support of the scratch file system is required (otherwise inconclusive).",
            "DESIGN.md §4 C12"),
    "C03": ("E-MODEL", "exploration",
            "reference-model monitor over generated operation histories on every stored format (step-wise comparison)",
            "Seeded operation histories (push, truncate, write, flush, stamped write, reset, reset_unsaved, re-import through the creating entry point, and on raw formats update/delete/take/fill_first_hole_or_push) are run on 36 (format, element type) instantiations - Bytes, ZeroCopy, Pco, LZ4, Zstd and EagerVec wrappers over u8..u128, i64, f32/f64 (bit-compared), byte arrays of 3/16/33 bytes and derive(Bytes)/derive(Pco) wrappers. After every operation len, every slot (collect_holed), the deleted-slot set, the stamp and the dense collect() are compared with a list-of-optional-values model; write() is placed at random positions so buffered/stored splits vary. Write regimes (raw: new data / truncated / holes region created / removed; compressed: fast raw append / partial re-encode / fresh pages / boundary truncate) are measured and required.",
            "Trusts the ~150-line model (semantics taken from README/rustdoc); vectors up to ~6 pages; every format is compared with the same deterministic model rather than pairwise.",
            "DESIGN.md §4 C03"),
    "C04": ("E-MODEL", "exploration",
            "reference-model monitor with a commit chain over generated commit/edit/rollback histories",
            "Histories of stamped_write_with_changes commits (retention 1..6, increasing stamps with gaps, no-op commits, re-committing a used stamp after rollback), edits between commits (push, truncate below the stored length, update, delete, take, fill), rollback and rollback_before (targets inside, at and beyond the window) and continuations after every rollback (edit, commit, re-import, roll back again) on all formats; after every operation contents, deleted slots and stamp must equal the model's commit chain, and the result of every call (Ok / error class / returned stamp) must be the one the model predicts.",
            "Rollbacks are issued only from committed states and only pushes/truncations/updates/deletions occur between commits (the statement's domain); the shrinker stays inside that domain.",
            "DESIGN.md §4 C04"),
    "C07": ("E-MODEL", "exploration",
            "bit-exact model comparison + independent parser of the on-disk page index after every write",
            "Compressed vectors (Pco, LZ4, Zstd x integer/float/byte-array elements) are driven through chunked pushes, writes, truncations (into the raw page, into a compressed page, on a boundary) and re-imports; all values are compared bit-exactly (NaN payloads, +-0, subnormals, MIN/MAX are generated regularly) and after every write()/flush/commit/re-import the `<name>_pages` region is read through rawdb and parsed by the harness: gap-free from the header, all pages but the last full and compressed, counts add up to the stored length, data region ends at the last page. The (fill, push, truncate) triples around 0, one page and two pages (13^3 per vector) are enumerated completely for u64 on each codec (more element widths in the thorough tier).",
            "The parser of the 16-byte page entries is the harness's own (written from the format description); values are generated, not exhaustive.",
            "DESIGN.md §4 C07"),
    "C08": ("E-MODEL", "exploration",
            "differential read-API grid against the reference contents in every state reached by C03/C04 histories",
            "In states reached by C03/C04 histories (clean, buffered, truncated, with deleted slots, after rollback) every read API - collect*, collect_range*, collect_one*, signed ranges, fold/try_fold (early exit), for_each*, read_into (append contract), cursor (next/advance/fold/get/position), sorted reads with duplicates and out-of-range tail, min/max/sum, VecReader get/try_get, ZeroCopy read_ref, read-only clone, boxed clone, CachedVec, fold_stored_io/mmap - is called over a grid of (from,to) pairs (0, +-1 around the stored/buffered and page boundaries, len, len+1, usize::MAX, reversed, random) and compared with the model restricted to the range; a panic is a violation. The whole campaign is repeated with the scan back-end crossover set to 0 and 64 bytes (file-IO sources through the generic entry points) and with the default.",
            "Stored-only views (read-only clones, VecReader, fold_stored_*) are compared with what the last write() stored and are only exercised (not value-judged) between a rollback and the next write; VecReader::get only in range (documented panic).",
            "DESIGN.md §4 C08"),
    "C13": ("E-MODEL", "exploration",
            "full before/after snapshot around every refused request + continuation under the step-wise model",
            "Refused requests (rawdb: write_at beyond the end, truncate beyond the length, rename onto an existing name, rename/remove of a removed region, remove with a second live handle, remove of an unknown name; vecdb: update beyond len, checked push at a wrong index, plain import with another version / as another format, rollback without a usable change record) are issued inside ordinary C01/C03/C04 histories. Each must return an error; a full snapshot (every region's start/reserved/len/content, layout walk, file length, change directory, the vector's volatile view) taken before must equal the one taken after, and the history continues (flush, reopen/re-import included) under the step-wise model comparison.",
            "I/O failures of the environment are not injected; refusals are issued in generated states, not all states.",
            "DESIGN.md §4 C13"),
    "C20": ("E-MODEL", "exploration",
            "online access monitor: every byte range fetched from the mapping or the data file is checked against the vector's own regions",
            "The C08 read grid is driven in C03/C04 states (incl. after truncation, after rollback across truncating commits, and through read-only clones / VecReaders) while the observer receives an Access event for every pointer read from the mapping (Reader::unchecked_read, raw strategy reads per element, bulk memcpy reads, ZeroCopy reference reads) and a FileRead event for every file-IO buffer refill; each range must lie within [start, start+len) of the vector's data, page-index or holes region according to the region metadata at that moment. Repeated with the file-IO back-end forced.",
            "A read site without a tap is invisible (the C08 value comparison still sees its result); single-threaded.",
            "DESIGN.md §4 C20"),
    "C06": ("E-EAGER", "exploration",
            "differential monitor: every incremental compute_* call vs the same method run from scratch, replayed under several internal batch limits",
            "41 integer-exact compute_* methods (transforms incl. indirect_sequential/first_per_index, arithmetic, cumulative, fixed and variable windows, lookback, *_of_others, index-group sums/counts, all-time extremes) are driven through histories of source appends, truncation + regrowth with different values, redundant calls and flush + re-import of the result, with sources and results in Bytes/ZeroCopy/LZ4/Zstd combinations. After every call the stored result must equal, element by element, the same method evaluated on a fresh vector over the sources' current contents, and have the length of the shortest governing source. The starting index is always <= min(first changed source row, first index where old and new from-scratch results differ). Every history is re-run with the internal batch limit lowered to 1 / 64 (thorough: 1/3/64/4096) elements through a cfg(verif) knob and must reproduce the per-call result hashes of the default-limit run; batch boundaries are counted through a hook point and a multi-batch execution is required for every method.",
            "The from-scratch run of the method itself is the reference (as the statement says); float families are outside 'exact arithmetic'; documented panics (unsigned underflow, zero divisor) are avoided by construction.",
            "DESIGN.md §4 C06"),
    "C14": ("E-TABLE", "exploration",
            "exhaustive evaluation of the import decision table on fresh databases",
            "Every cell of (stored format x requested format over Bytes/ZeroCopy/Pco/LZ4/Zstd) x (created with import|forced_import) x (re-opened with import|forced_import) x (stored version 1|2) x (requested version 1|2) x (small vector | multi-page vector with deleted slots / 2-page index) is executed (1600 cells per element type), plus all 125 forced-import chains f1->f2->f3 and the damaged-header / odd-length cases per format and entry point. Expected per cell: match -> stored contents, deleted slots and stamp come back and the regions are byte-identical; mismatch + import -> DifferentVersion/DifferentFormat and all regions byte-identical; mismatch + forced_import -> empty vector without deleted slots; non-mismatch errors never discard; afterwards the stored vector must accept push + flush + re-import.",
            "Element type is the same on both sides; lock and I/O errors cannot be produced at import time on an open database (C18 covers the locked directory).",
            "DESIGN.md §4 C14"),
    "C16": ("E-FAULT", "fault_enumeration",
            "commit-chain model for retention + single-file fault injection on change records with full before/after snapshots",
            "Commit/rollback histories with retention k in {0,1,2,3,5} run under the C04 model, whose record set predicts for every rollback whether it must succeed (exactly min(k, commits) consecutive ones do) and which records may exist (directory listing compared after every commit). In committed states with a retained record every single-file fault is injected and rollback() called: record deleted; truncated at every byte offset (<= 600 bytes: all; larger: first 200, last 64, around every length field, random); every length field overwritten with 2^32, 2^40, 2^63, u64::MAX (and true+1 for the three redundant truncation fields). The call must fail and leave regions, change directory and the vector's view byte-identical - or, if accepted, produce exactly the previous committed state. rollback_before across a truncated older record must fail resting on the committed state it had reached.",
            "One damaged file at a time; a count field changed into another in-range value yields a different well-formed record that cannot be recognised (no checksums) and is outside 'out-of-range'.",
            "DESIGN.md §4 C16"),
    "C19": ("E-EAGER", "exploration",
            "index-logging closures + version-stamped results + differential against from-scratch under version changes",
            "The C06 engine with version changes: inputs re-created under higher versions (always with new contents), the vector's own version raised by a forced re-import, arbitrary starting indices, interleaved with appends, truncate+regrow, flush + re-import. After a version change the result must equal the from-scratch result over the new inputs and - for compute_to/range/transform/transform2/3/4, whose closures log every index and stamp the version into each element - the closure must have run for exactly 0..len. Under an unchanged version no index below min(starting index, stored length) may reach the closure and no stored element below it may change; header().computed_version() must survive flush + re-import.",
            "'Not re-evaluated' is decided for the closure-taking families only; for the others staleness is recognised by value.",
            "DESIGN.md §4 C19"),
    "C15": ("E-LAZY", "exploration",
            "formula oracle over the full read-API grid, exhaustive over small window-start / first-index mappings",
            "LazyVecFrom1/2/3 (and a nested From1), LazyDeltaVec<Sub|Avg|Change|Rate> and LazyAggVec<Sparse> are built over stored sources (Bytes/ZeroCopy/Pco/LZ4/Zstd, through boxed read-only clones); every read API - collect*, every (from,to) incl. reversed/out of range/usize::MAX, read_into (append), fold/try_fold with early exit, for_each*, collect_one for every index up to len+2 and usize::MAX, sorted reads with duplicates and out-of-range tails, cursor next/advance/fold/get - is compared with the defining formula evaluated on the harness's own copy of the sources, before and after the sources grow. All monotone window-start vectors with starts[h] <= h+1 and all monotone first-index mappings (values 0..=len) are enumerated for n <= 5 (thorough: 6) with all ranges and all sorted index lists of length <= 3; random scenarios cover one/two-page and multi-thousand lengths, unequal source lengths and mappings shorter/longer than the source.",
            "Mapping values beyond the source length are outside the defined domain and not judged; float operators are compared with the same IEEE expression.",
            "DESIGN.md §4 C15"),
    "C17": ("E-CODEC", "exploration",
            "structured round-trip generation at the limits + mutation fuzzing of valid encodings in child processes with a counting allocator",
            "For RegionMetadata slots, crafted regions files (opened with the real Database::open), vector headers, page-index entries, Stamp/Version/Format, every numeric Bytes impl, 16 byte-array widths, derive(Bytes) and base/raw change records for five element types: valid encodings of values at and around the limits (0, page+-1, 2^32+-1, 2^40, 2^63, u64::MAX-k; id lengths 0/1/1024/1025; non-UTF-8) must decode to exactly the encoded fields; truncations (change records: at every byte length), bit flips, every length field overwritten with limit values, and extensions must yield an error or a value that satisfies the type's rules. The loop runs in 16 child processes; a panic, a child that dies (allocation failure aborts cannot be caught), or a per-call peak allocation above 4 x input + 64 KiB (thread-local counting global allocator) is a violation; in crafted regions files exactly the valid slots must be present after open.",
            "Native release build (quick); overflow-on-arithmetic is only visible where it changes a result or panics; the thorough tier adds the ASan and Miri passes (DESIGN.md 12.7). Page payload decoding with a corrupt page *entry* is outside the statement's list and is not judged.",
            "DESIGN.md §4 C17"),
    "C18": ("E-PROC", "exploration",
            "holder-set model over totally ordered command histories across processes + byte-compare of the files around refused opens",
            "The harness re-executes itself as 1-3 command-server child processes; the parent (itself a participant) issues OPEN (min_len 0 / below / above the current size), CLONE, region-derived database reference, READER, background task, WRITE+FLUSH and DROP commands in random order. While any holder of any participant is alive every other open (same process or not) must fail with a lock error and leave `data` and `regions` byte-identical (size and content hash before/after); once the last holder is gone the next open must succeed and see exactly the digest the previous holder flushed. Rounds of 2-8 threads racing to open with an occupancy counter prove that two never hold at once.",
            "Advisory flock semantics of the local file system; a participant never writes while it holds a reader (documented misuse).",
            "DESIGN.md §4 C18"),
    "C09": ("E-SCHED", "exploration",
            "controlled scheduler on the real locks + prefix oracle on every value a reader obtains",
            "One write() in a chosen regime (raw: in place / growth with relocation / large growth / first write; compressed: fast raw append / partial-page re-encode / fresh pages / page filled exactly / first write) runs against one reader operation (tail range, last element, point reader, full fold through a read-only clone) for Bytes, Pco, LZ4 and Zstd. Both threads are managed: they stop at every acquisition of a tapped lock and at the named points inside the write paths (after the region write, after the page-index update, after the length publication ...), one thread runs at a time, and schedules are drawn first at random (seeded) and then enumerated depth-first up to the pre-emption bound. The pushed value is a function of the index, so every element the reader obtains below the length it observed is checked, lengths must not decrease and a panic or a (child-process-confirmed) deadlock is a violation.",
            "Pre-emption bound 2 (thorough 3) and a run cap per scenario - `exhaustive` is reported per scenario only when the tree was finished; one writer, one reader.",
            "DESIGN.md §4 C09"),
    "C10": ("E-SCHED", "exploration",
            "controlled scheduler + per-thread byte models, extent walker at quiescence, provenance check of reader bytes",
            "Threads that create, append (through every placement path), truncate, flush and grow their own regions are interleaved at lock-acquisition / named-point granularity (two threads: depth-first up to 2 pre-emptions; three: seeded random schedules); after every operation the thread compares its region with its own byte model, and at quiescence the extent invariants of C02 are walked. Directed scenarios: two creators on a file whose allocated area ends one page before the end of the file, and a reader held across relocation + flush + re-use of the old extent (bytes below the snapshot length must be bytes the region held).",
            "Bounded pre-emptions / run caps; the reader clause is decided on the directed scenario.",
            "DESIGN.md §4 C10"),
    "C11": ("E-SCHED", "exploration",
            "controlled scheduler with a lock model (writer preference), lock-order graph, guided schedules for graph cycles, deadlock confirmation in a child process",
            "A catalogue of 20 operations - 6 of them on vectors: compressed write on the fast raw-append path, the re-encode path and across many pages, scans through the mmap and the file-IO back-end, raw-vector write - and 14 on regions (writes through each placement path incl. file growth, write_at, truncate, rename, remove+create, create, Region::flush, Database::flush, compact, background compact + join, reader, retain) is run in all 105 pairs (depth-first, bounded pre-emptions) and in the triples that contain a file-growing operation (seeded random schedules). Every acquisition feeds a lock-order graph (held class/mode -> acquired class/mode per operation); for each cycle that needs a queued writer (reader/reader conflict under writer preference) the triple (holder A, holder B, writer W) is run under guided schedules that drive each thread to its critical request in all six orders. 'Unfinished threads and none enabled' under the lock model (a queued writer blocks new readers; queueing up is an explicit step) is a modelled deadlock; it is reported only if the same threads, released into the real blocking locks in a child process, make no progress for 3 s.",
            "Finite catalogue; bounded pre-emptions; the writer-preference rule is the assumption the property states; no thread keeps a reader across another call of its own.",
            "DESIGN.md §4 C11"),
}

NOT_YET = {}

def main():
    props = [json.loads(l) for l in open("/verif/properties.jsonl")]
    checks = []
    na = []
    for p in props:
        pid = p["id"]
        if pid in CHECKS:
            eng, cat, tech, text, note, ref = CHECKS[pid]
            if pid in ("C01", "C03", "C07", "C08", "C17", "C20"):
                tech += "; thorough tier: the same monitor once more, reduced, under AddressSanitizer (halt on first report)"
            if pid in ("C07", "C17"):
                tech += "; thorough tier: the pure codecs (no mapping needed) under Miri, 12 interpreter shards"
            checks.append({
                "property_id": pid,
                "quick_cmd": f"./check {pid} --tier quick",
                "thorough_cmd": f"./check {pid} --tier thorough",
                "evidence_file": f"/verif/evidence/{pid}.json",
                "replay_cmd_template": f"./check {pid} --replay {{path}}",
                "engine": eng,
                "level_claimed": {"category": cat, "text": text, "design_ref": ref},
                "level_note": note,
                "technique": tech,
            })
        else:
            na.append({"property_id": pid,
                       "reason": NOT_YET.get(pid, "monitor designed (DESIGN.md §4) but not built yet in this session; not claimed until its check runs silent on the unchanged tree")})
    m = {
        "version": 1,
        "setup_cmd": "cd /verif/harness && CARGO_NET_OFFLINE=true CARGO_TARGET_DIR=/verif/harness/target cargo build --release --offline",
        "hooks": {
            "guard": "cargo feature `verif` on rawdb and vecdb (vecdb/verif enables rawdb/verif); off by default",
            "enable": "the harness crate /verif/harness depends on /repo/crates/{rawdb,vecdb} by path with features = [\"verif\", ...]; `./check` rebuilds it from /repo's working tree on every invocation",
            "baseline_off_cmd": "cd /repo && cargo test --workspace --no-fail-fast --offline",
            "source_commits": HOOK_COMMITS,
            "add_only": False,
        },
        "engines": [
            {"name": "E-MODEL", "path": "harness/src/rawmodel.rs, harness/src/c_raw.rs, harness/src/vecmodel.rs, harness/src/c_vec.rs, harness/src/probes.rs", "serves_properties": ["C01", "C02", "C03", "C04", "C07", "C08", "C13", "C20"], "kind_free_text": "seeded history generator + reference model + step-wise comparator + ddmin shrinker (rawdb regions and vecdb vectors)"},
            {"name": "E-EAGER", "path": "harness/src/c_eager.rs", "serves_properties": ["C06", "C19"], "kind_free_text": "differential monitor for EagerVec computations: incremental vs from-scratch, batch-limit replay, version-change oracle"},
            {"name": "E-TABLE", "path": "harness/src/c_import.rs", "serves_properties": ["C14"], "kind_free_text": "exhaustive decision-table executor for import / forced_import"},
            {"name": "E-FAULT", "path": "harness/src/c_fault.rs", "serves_properties": ["C16"], "kind_free_text": "single-file fault injector for change records (delete / truncate at every offset / length-field overwrite)"},
            {"name": "E-LAZY", "path": "harness/src/c_lazy.rs", "serves_properties": ["C15"], "kind_free_text": "formula oracle + read-API grid for lazy vectors, exhaustive small mappings"},
            {"name": "E-CODEC", "path": "harness/src/c_codec.rs", "serves_properties": ["C07", "C17"], "kind_free_text": "independent page-index parser; codec fuzzer in child shards with a counting allocator"},
            {"name": "E-PROC", "path": "harness/src/c_proc.rs", "serves_properties": ["C18"], "kind_free_text": "multi-process command-server driver with a holder-set model"},
            {"name": "E-SCHED", "path": "harness/src/sched.rs, harness/src/c_sched.rs", "serves_properties": ["C09", "C10", "C11", "C12"], "kind_free_text": "controlled scheduler for real threads at lock-acquisition / named-point granularity with a parking_lot lock model; DFS / random / guided policies; deadlock confirmation in a child process"},
            {"name": "E-CRASH", "path": "harness/src/crash.rs, harness/src/c_crash.rs", "serves_properties": ["C05", "C12"], "kind_free_text": "durable-image shadow of both files from hook events; crash images recovered by the real open"},
            {"name": "E-LAYOUT", "path": "harness/src/rawmodel.rs (check_layout)", "serves_properties": ["C02", "C10", "C13"], "kind_free_text": "extent/partition invariant walker at quiescent points"},
        ],
        "checks": checks,
        "notes": "All checks are one binary (harness/target/release/anydb-verif) driven by ./check <ID>; VERIF_SEED selects the PRNG seed, VERIF_TIER/--tier the depth, VERIF_BUDGET scales exploration time. add_only=false because a handful of `use parking_lot::...` lines are cfg-split so the lock types can be swapped for the tap under the feature; nothing else is rewritten.",
        "not_applicable": na,
    }
    json.dump(m, open("/verif/MANIFEST.json", "w"), indent=1)
    print("wrote MANIFEST.json:", len(checks), "checks,", len(na), "unclaimed")

if __name__ == "__main__":
    main()
